"""Which lines of the code under test do the generated cases actually execute?  (DESIGN.md section 7.3)

Enabled with OASV_COVER=<directory>: every worker process records, through Python 3.12's sys.monitoring (each location
reports once and is then disabled, so the cost is negligible), the (file, line) pairs executed inside
$VERIF_REPO/openaerostruct and appends them to <directory>/<pid>.txt when a shard ends.  `tools/cover_report.py` merges
the files and lists, per source file, the executable lines never reached.  Measurement only - never part of a verdict."""
import os
import sys

_hits = set()
_on = False


def start(repo):
    global _on
    d = os.environ.get("OASV_COVER")
    if not d or _on or not hasattr(sys, "monitoring"):
        return
    root = os.path.join(os.path.abspath(repo), "openaerostruct") + os.sep
    mon = sys.monitoring
    tool = mon.COVERAGE_ID
    try:
        mon.use_tool_id(tool, "oasv-cover")
    except ValueError:
        return

    def on_line(code, line):
        f = code.co_filename
        if f.startswith(root):
            _hits.add((f[len(root):], line))
        return mon.DISABLE

    mon.register_callback(tool, mon.events.LINE, on_line)
    mon.set_events(tool, mon.events.LINE)
    _on = True


def flush():
    d = os.environ.get("OASV_COVER")
    if not d or not _on:
        return
    os.makedirs(d, exist_ok=True)
    with open(os.path.join(d, "%d.txt" % os.getpid()), "a") as f:
        for fn, ln in sorted(_hits):
            f.write("%s:%d\n" % (fn, ln))
    _hits.clear()
