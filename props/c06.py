"""C06  Dynamic-pressure, length-scale and translation laws; lift/drag decomposition (DESIGN.md section 4, C06)."""
import numpy as np
from hypothesis import strategies as st

from oasv import strategies as S
from oasv.core import Outcome, Sub
from oasv.layouts import place_surfaces, symmetry_of
from oasv.models import aero_direct, aero_surface

RULE = (
    "Hypothesis draws 1-3 surfaces (all mesh families, placed outside each other's wakes) with options viscous / wave drag, "
    "wetted or projected reference area, CL0/CD0, compressible, ground effect (all-symmetric configurations), optional rotation "
    "rates, and a flow point; then factors k_rho,k_v in [0.1,10], a length factor k in 10^[-3,3] and a translation |t| <= 100 "
    "spans (x,z only with symmetric surfaces; height_agl adjusted by t.n in ground effect).  Metamorphic oracles: "
    "F(k_rho rho, k_v v) = k_rho k_v^2 F with unchanged coefficients; scaling all lengths by k (meshes, cg, height, Re/L by 1/k, "
    "rotation rates by 1/k) scales F by k^2, M by k^3 and leaves all coefficients unchanged; translation changes nothing. "
    "Definitions: L,D are the components of the summed panel forces along e_L(alpha), e_D(alpha,beta) (x2 symmetric); "
    "CL_i = L_i/(q S_i)+CL0; aircraft CL,CD = sum S_i C_i / S_tot; total L,D = q sum S_i C_i.  A separate sub-check explores "
    "extreme length factors 1e-7..1e-4 and 1e4..1e7 (this is where the absolute kernel guard repaired by the fix: commit failed).  non-trivial = lifting case; distinct by descriptor digest."
)
ASSUMPTIONS = [
    "tolerance 1e-9 relative to the largest entry (measured floor 4e-16); translations 1e-9*(1+|t|/span) for cancellation",
    "similarity scaling of rotation rates (omega*k_v, omega/k) accompanies speed and length scaling",
    "sideslip without symmetric surfaces, or with symmetric surfaces in incompressible cases (LiftDrag documents the x2 convention); compressible + symmetric + sideslip is NOT generated: x/z translation changes the results there on the unchanged tree, untriaged (DESIGN.md 12.3)",
    "ground effect only with the incompressible solver (compressible + groundplane raises at setup: unsupported combination)",
]


@st.composite
def config(draw, micro=False):
    surfaces = draw(S.aero_config(max_surf=3, nx=(2, 3), nyh=(2, 4), max_panels=30))
    allsym = all(symmetry_of(s["mesh"]) for s in surfaces)
    anysym = any(symmetry_of(s["mesh"]) for s in surfaces)
    # sideslip with a symmetric surface is outside the physics of a mirrored model, but the library accepts it and LiftDrag
    # documents its convention ("if symmetric, double the computed forces"); drawn for incompressible cases only (DESIGN 12.3)
    flow = draw(S.flow(beta=(not anysym) or draw(st.integers(0, 2)) == 0, rot=True, mach=(0.05, 0.9)))
    opts = [
        dict(
            with_viscous=draw(st.booleans()),
            with_wave=draw(st.booleans()),
            S_ref_type=draw(st.sampled_from(["wetted", "projected"])),
            CL0=draw(st.sampled_from([0.0, 0.1])),
            CD0=draw(st.sampled_from([0.0, 0.015])),
            k_lam=draw(st.sampled_from([0.05, 0.0, 0.5])),
            toc=draw(S.fl(0.05, 0.2, 0.12)),
        )
        for _ in surfaces
    ]
    d = dict(
        surfaces=surfaces,
        flow=flow,
        opts=opts,
        compressible=draw(st.booleans()),
        ground=draw(st.sampled_from([True, True, False])) if allsym else False,
        clear=draw(S.logfl(-1.0, 2.0, 1.0)),
        k_rho=draw(S.logfl(-1.0, 1.0, 1.0)),
        k_v=draw(S.logfl(-1.0, 1.0, 1.0)),
        k_len=draw(st.one_of(S.logfl(-7.0, -4.0), S.logfl(4.0, 7.0)) if micro else S.logfl(-3.0, 3.0, 1.0)),
        t=[draw(S.fl(-100.0, 100.0, 0.0)) for _ in range(3)],
    )
    if d["compressible"]:
        d["ground"] = False  # CompressibleVLMStates does not promote height_agl: the combination fails loudly at setup
    if d["compressible"] and "omega" in flow:
        del flow["omega"]  # PG transformation of rotation rates is outside the statement (see C09)
        flow.pop("cg", None)
    if anysym:
        d["t"][1] = 0.0
    if anysym and flow.get("beta", 0.0) != 0.0:
        d["compressible"] = False  # symmetric + sideslip + Prandtl-Glauert: x/z translation changes the results (DESIGN 12.3)
    return d


def build(desc, meshes, flow, height):
    syms = [symmetry_of(s["mesh"]) for s in desc["surfaces"]]
    surfaces = []
    for k, m in enumerate(meshes):
        o = desc["opts"][k]
        kw = dict(with_viscous=o["with_viscous"], with_wave=o["with_wave"], S_ref_type=o["S_ref_type"], CL0=o["CL0"],
                  CD0=o["CD0"], k_lam=o["k_lam"])
        if desc["ground"]:
            kw["groundplane"] = True
        surfaces.append(aero_surface("s%d" % k, m, syms[k], **kw))
    p = aero_direct(surfaces, flow, compressible=desc["compressible"], height=height if desc["ground"] else None,
                    t_over_c=[o["toc"] for o in desc["opts"]])
    p.run_model()
    return p


def collect(p, ns):
    o = {"F": [], "coef": {}, "dim2": {}}
    for k in range(ns):
        o["F"].append(p.get_val("aero_point_0.aero_states.s%d_sec_forces" % k).copy())
        for c in ("CL", "CD", "CDi", "CDv", "CDw"):
            o["coef"]["s%d_%s" % (k, c)] = p.get_val("aero_point_0.s%d_perf.%s" % (k, c)).copy()
        for c in ("L", "D"):
            o["dim2"]["s%d_%s" % (k, c)] = p.get_val("aero_point_0.s%d_perf.%s" % (k, c)).copy()
        o["dim2"]["s%d_S_ref_over_q" % k] = None
        o["coef"]["s%d_Cl" % k] = p.get_val("aero_point_0.s%d_perf.Cl" % k).copy()
    for c in ("CL", "CD", "CM"):
        o["coef"][c] = p.get_val("aero_point_0." + c).copy()
    o["dim2"]["L"] = p.get_val("aero_point_0.total_perf.L").copy()
    o["dim2"]["D"] = p.get_val("aero_point_0.total_perf.D").copy()
    o["M"] = p.get_val("aero_point_0.total_perf.moment.M").copy()
    o["S"] = [p.get_val("aero_point_0.s%d.S_ref" % k).copy() for k in range(ns)]
    return o


def compare(out, tag, a, b, fac_F, fac_M, fac_S, ns, rtol):
    """b must equal a with forces*fac_F, moments*fac_M, areas*fac_S, coefficients unchanged"""
    fs = max(float(np.max(np.abs(f))) for f in a["F"]) * fac_F
    for k in range(ns):
        out.close(tag + "/sec_forces", b["F"][k], a["F"][k] * fac_F, rtol=rtol, scale=fs)
        out.close(tag + "/S_ref", b["S"][k], a["S"][k] * fac_S, rtol=rtol)
    cscale = max(max(float(np.max(np.abs(v))) for v in a["coef"].values()), 1e-3)
    for c, v in a["coef"].items():
        out.close(tag + "/" + c.split("_")[-1], b["coef"][c], v, rtol=rtol, scale=cscale if c != "CM" else None,
                  atol=rtol * cscale if c == "CM" else 0.0)
    dscale = max(max(float(np.max(np.abs(v))) for v in a["dim2"].values() if v is not None), 1e-30) * fac_F
    for c, v in a["dim2"].items():
        if v is not None:
            out.close(tag + "/dim_" + c.split("_")[-1], b["dim2"][c], v * fac_F, rtol=rtol, scale=dscale)
    span = 1.0
    out.close(tag + "/M", b["M"], a["M"] * fac_M, rtol=rtol, atol=rtol * fs * fac_M / max(fac_F, 1e-300) * a.get("arm", 1.0))


def verdict(desc, micro=False):
    out = Outcome()
    fl = dict(desc["flow"])
    alpha = fl["alpha"]
    meshes = place_surfaces(desc["surfaces"], alpha)
    ns = len(meshes)
    a_ = np.radians(alpha)
    n = np.array([np.sin(a_), 0.0, -np.cos(a_)])
    b_half = max(float(np.max(np.abs(m[:, :, 1] - m[:, :, 1].mean()))) for m in meshes)
    low = max(float(np.max(m @ n)) for m in meshes)
    h = low + desc["clear"] * b_half
    base = collect(build(desc, meshes, fl, h), ns)
    arm = max(float(np.max(np.abs(m - np.array(fl.get("cg", [0, 0, 0]))))) for m in meshes)
    base["arm"] = arm
    rtol = 1e-9

    if not micro:
        # (a) density / speed
        kr, kv = desc["k_rho"], desc["k_v"]
        f2 = dict(fl, rho=fl["rho"] * kr, v=fl["v"] * kv)
        if "omega" in fl:
            f2["omega"] = [w * kv for w in fl["omega"]]
        compare(out, "qscale", base, collect(build(desc, meshes, f2, h), ns), kr * kv * kv, kr * kv * kv, 1.0, ns, rtol)
        # (c) translation
        t = np.array(desc["t"]) * b_half / 1.0
        t = t * (1.0 if np.linalg.norm(desc["t"]) > 0 else 0.0)
        f3 = dict(fl)
        f3["cg"] = list(np.array(fl.get("cg", [0.0, 0.0, 0.0])) + t)
        rt = rtol * (1.0 + np.linalg.norm(t) / b_half)
        compare(out, "translate", base, collect(build(desc, [m + t for m in meshes], f3, h + float(t @ n)), ns), 1.0, 1.0, 1.0,
                ns, rt)
    # (b) length scale
    k = desc["k_len"]
    f4 = dict(fl, re=fl["re"] / k)
    f4["cg"] = list(np.array(fl.get("cg", [0.0, 0.0, 0.0])) * k)
    if "omega" in fl:
        f4["omega"] = [w / k for w in fl["omega"]]
    sc = collect(build(desc, [m * k for m in meshes], f4, h * k), ns)
    if micro:
        compare(out, "lscale_extreme", base, sc, k * k, k ** 3, k * k, ns, rtol)
        out.label("extreme-k<1e-4" if k < 1 else "extreme-k>1e4")
    else:
        compare(out, "lscale", base, sc, k * k, k ** 3, k * k, ns, rtol)

    # (d) definitions
    q = 0.5 * fl["rho"] * fl["v"] ** 2
    be = np.radians(fl.get("beta", 0.0))
    eL = np.array([-np.sin(a_), 0.0, np.cos(a_)])
    eD = np.array([np.cos(a_) * np.cos(be), -np.sin(be), np.sin(a_) * np.cos(be)])
    SCL = SCD = 0.0
    Stot = 0.0
    syms = [symmetry_of(s["mesh"]) for s in desc["surfaces"]]
    fs = max(float(np.max(np.abs(f))) for f in base["F"]) * max(f.shape[0] * f.shape[1] for f in base["F"])
    for i in range(ns):
        mult = 2.0 if syms[i] else 1.0
        Fsum = base["F"][i].sum(axis=(0, 1))
        out.close("def/L", base["dim2"]["s%d_L" % i], mult * Fsum @ eL, rtol=1e-10, scale=fs * mult)
        out.close("def/D", base["dim2"]["s%d_D" % i], mult * Fsum @ eD, rtol=1e-10, scale=fs * mult)
        Si = base["S"][i][0]
        o = desc["opts"][i]
        out.close("def/CL_surface", base["coef"]["s%d_CL" % i], mult * Fsum @ eL / (q * Si) + o["CL0"], rtol=1e-10, atol=1e-13)
        out.close("def/CD_surface", base["coef"]["s%d_CD" % i],
                  base["coef"]["s%d_CDi" % i] + base["coef"]["s%d_CDv" % i] + base["coef"]["s%d_CDw" % i] + o["CD0"],
                  rtol=1e-12, atol=1e-15)
        out.close("def/CDi_surface", base["coef"]["s%d_CDi" % i], mult * Fsum @ eD / (q * Si), rtol=1e-10, atol=1e-13)
        SCL += Si * base["coef"]["s%d_CL" % i][0]
        SCD += Si * base["coef"]["s%d_CD" % i][0]
        Stot += Si
    out.close("def/CL_total", base["coef"]["CL"], SCL / Stot, rtol=1e-12, atol=1e-15)
    out.close("def/CD_total", base["coef"]["CD"], SCD / Stot, rtol=1e-12, atol=1e-15)
    out.close("def/L_total", base["dim2"]["L"], q * SCL, rtol=1e-12, atol=1e-12 * q * Stot)
    out.close("def/D_total", base["dim2"]["D"], q * SCD, rtol=1e-12, atol=1e-12 * q * Stot)

    out.label("nsurf=%d" % ns)
    for name in ("compressible", "ground"):
        if desc[name]:
            out.label(name)
    if any(o["with_viscous"] for o in desc["opts"]):
        out.label("viscous")
    if any(o["with_wave"] for o in desc["opts"]):
        out.label("wave")
    if any(o["S_ref_type"] == "projected" for o in desc["opts"]):
        out.label("projected")
    if "omega" in fl:
        out.label("rotation")
    if fl.get("beta", 0.0) != 0:
        out.label("sideslip")
        if any(syms):
            out.label("sideslip+symmetric")
    if any(syms):
        out.label("has-symmetric")
    if not micro:
        out.label("k<1" if desc["k_len"] < 1 else "k>=1")
    Ftot = np.abs(sum(f.sum(axis=(0, 1)) for f in base["F"])).max()
    out.nontrivial = bool(Ftot > 1e-9 * q * Stot)
    return out


def verdict_micro(desc):
    return verdict(desc, micro=True)


SUBS = [
    Sub("laws", config(), verdict, quick=480, thorough=8000),
    Sub("extreme_scale", config(micro=True), verdict_micro, quick=96, thorough=1200),
]
