#!/usr/bin/env python3
"""Evaluate a seeded change: tools/seedrun.py <seed_dir> [CXX ...]

Applies <seed_dir>/patch.diff to a scratch worktree of /repo (/tmp/wt_eval), confirms the demonstration (exit 0
unchanged, exit 1 patched), runs the quick tier of the given properties (default: the property named in meta.json)
against the patched tree with VERIF_REPO, reverts the worktree and prints a one-line summary per check."""
import json
import os
import subprocess
import sys
import time

WT = os.environ.get("SEEDRUN_WT", "/tmp/wt_eval")
VERIF = os.path.dirname(os.path.dirname(os.path.abspath(__file__)))


def sh(cmd, **kw):
    return subprocess.run(cmd, shell=True, capture_output=True, text=True, **kw)


def main():
    seed = os.path.abspath(sys.argv[1])
    meta = json.load(open(os.path.join(seed, "meta.json")))
    props = sys.argv[2:] or [meta["property"]]
    sh("git -C %s checkout -q -- . && git -C %s clean -fdq" % (WT, WT))
    head = sh("git -C /repo rev-parse HEAD").stdout.strip()
    sh("git -C %s checkout -q --detach %s" % (WT, head))
    demo = os.path.join(seed, "demo.py")
    r0 = sh("cd /tmp && /venv/bin/python %s %s" % (demo, WT), timeout=900)
    a = sh("git -C %s apply %s" % (WT, os.path.join(seed, "patch.diff")))
    if a.returncode != 0:
        # the seeded changes were written against d73de8c; later fix: commits may touch the same lines
        head = "d73de8c"
        sh("git -C %s checkout -q --detach %s" % (WT, head))
        r0 = sh("cd /tmp && /venv/bin/python %s %s" % (demo, WT), timeout=900)
        a = sh("git -C %s apply %s" % (WT, os.path.join(seed, "patch.diff")))
        if a.returncode != 0:
            print("PATCH DOES NOT APPLY:", a.stderr[:300])
            return 2
        print("   (patch does not apply to /repo HEAD any more; evaluated on its base commit %s)" % head)
    r1 = sh("cd /tmp && /venv/bin/python %s %s" % (demo, WT), timeout=900)
    print("seed %s property=%s demo unchanged=%d patched=%d :: %s" % (os.path.basename(seed), meta["property"], r0.returncode,
                                                                      r1.returncode, meta.get("what", "")[:160]))
    results = {}
    for pid in props:
        t = time.time()
        env = dict(os.environ, VERIF_REPO=WT)
        r = subprocess.run("./check %s --no-evidence" % pid, shell=True, capture_output=True, text=True, cwd=VERIF, env=env)
        keys = [l.strip() for l in r.stdout.splitlines() if l.strip().startswith("violation ")]
        results[pid] = (r.returncode, keys)
        print("   %s exit=%d wall=%.0fs %s" % (pid, r.returncode, time.time() - t, "CAUGHT" if r.returncode == 1 else "missed"))
        for k in keys[:6]:
            print("      " + k[:230])
        if r.returncode == 2:
            print("      " + "\n      ".join(r.stdout.splitlines()[-6:]))
    sh("git -C %s checkout -q -- . && git -C %s clean -fdq" % (WT, WT))
    sh("rm -rf %s/*_out" % WT)
    os.makedirs("/tmp/seedtests", exist_ok=True)
    with open("/tmp/seedtests/%s.check.json" % os.path.basename(seed), "w") as f:
        json.dump({"demo_unchanged_exit": r0.returncode, "demo_patched_exit": r1.returncode, "head": head,
                   "checks": {k: {"exit": v[0], "keys": [x.split(" :: ")[0] for x in v[1]]} for k, v in results.items()}}, f, indent=1)
    return 0


if __name__ == "__main__":
    sys.exit(main())
