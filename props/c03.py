"""C03  Outputs and derivatives depend only on the current point, not on history (DESIGN.md section 4, C03)."""
import numpy as np
from hypothesis import strategies as st

from oasv import strategies as S
from oasv.core import HistorySub, Outcome
from oasv.meshes import build_mesh
from oasv.models import (aero_geom_problem, aero_surface, aerostruct_problem, struct_alone_problem, struct_surface)

RULE = (
    "Hypothesis rule-based state machine over ONE live Problem.  initialize draws a topology (aero point behind Geometry "
    "groups / structure alone / aerostructural point), options (symmetric or full span, ground effect, viscous, wave, "
    "compressible, rotation rates, tube or wingbox, weight relief, point masses) and a pool of 2-4 design points (flow "
    "conditions and geometry/structural design variables).  Rules: goto(point), tweak(one input of the current point), run_model, run_model_twice, totals, "
    "linearize xk, check_partials(subset).  Model-based oracle: after every run_model all recorded outputs, and after every "
    "totals every total-derivative block and every component sub-Jacobian (read from the component's jacobian object), "
    "must equal those of a freshly built problem evaluated once at the current point (cached per point).  non-trivial = the "
    "history contains a linearisation after a point change, or >= 2 linearisations at one point, or a check_partials "
    "followed by totals; distinct by digest of (configuration, history)."
)
ASSUMPTIONS = [
    "tolerance 1e-9 relative to the block scale for aero / structure-alone (same arithmetic), 2e-8 for aerostructural "
    "models (coupled Gauss-Seidel converged to atol 1e-12 from different initial guesses)",
    "taper design variable kept away from exactly 1.0 is NOT needed after the fix of Taper.compute_partials",
    "component sub-Jacobians are compared for the components OpenMDAO linearises for the requested totals (relevance reduction)",
    "upstream: OpenMDAO 3.45 check_partials overwrites declared-constant sub-Jacobians with the approximation it computed "
    "(pure-OpenMDAO reproduction in DESIGN.md); after a check_partials in a history those keys (identified as: identical "
    "fresh values at two design points) and the total derivatives are no longer judged, all non-constant component "
    "partials stay at 1e-9 and the outputs of every later run_model are still compared",
]

TOPOLOGIES = ["aero", "aero", "struct", "aerostruct"]


@st.composite
def point(draw, topo):
    p = dict(
        alpha=draw(S.fl(-4.0, 9.0, 3.0)),
        v=draw(S.fl(30.0, 150.0, 80.0)),
        rho=draw(S.fl(0.3, 1.3, 1.0)),
        Mach=draw(S.fl(0.1, 0.88, 0.3, 0.84)),
        re=draw(S.logfl(5.5, 7.0, 1e6)),
        twist=[draw(S.fl(-4.0, 4.0, 0.0)) for _ in range(2)],
        chord=[draw(S.fl(0.7, 1.4, 1.0)) for _ in range(2)],
        sweep=draw(S.fl(-10.0, 25.0, 0.0)),
        taper=draw(S.fl(0.4, 1.3, 1.0)),
        thick=[draw(S.fl(0.6, 1.6, 1.0)) for _ in range(2)],
        cg=[draw(S.fl(-1.0, 2.0, 0.0)), 0.0, draw(S.fl(-0.5, 0.5, 0.0))],
        load_factor=draw(S.fl(0.5, 2.5, 1.0)),
        load_seed=draw(st.integers(0, 10 ** 6)),
        load_mag=draw(S.logfl(1.0, 4.0, 1e3)),
        omega=draw(st.one_of(st.just([0.0, 0.0, 0.0]), st.lists(S.fl(-0.5, 0.5, 0.0), min_size=3, max_size=3))),
        height=draw(S.logfl(0.0, 2.0, 10.0)),
    )
    return p


@st.composite
def config(draw):
    topo = draw(st.sampled_from(TOPOLOGIES))
    sym = draw(st.booleans())
    # structural models: >= 2 elements per half (OpenMDAO's SplineComp cannot differentiate a 1-point B-spline)
    md = draw(S.mesh(kinds=("left",) if sym else ("full",), nx=(2, 3), nyh=(3, 4), noise=False,
                     winglet=False,
                     root_offsets=False, max_twist=3.0, max_camber=0.03))
    md["side"]["chord"] = max(md["side"]["chord"], 0.8)
    md["side"]["taper"] = max(md["side"]["taper"], 0.4)
    cfg = dict(
        topo=topo,
        mesh=md,
        viscous=draw(st.booleans()),
        wave=draw(st.booleans()),
        compressible=draw(st.booleans()) if topo != "struct" else False,
        ground=draw(st.booleans()) if (sym and topo == "aero") else False,
        rotational=draw(st.booleans()) if topo == "aero" else False,
        model=draw(st.sampled_from(["tube", "wingbox"])),
        weight_relief=draw(st.booleans()),
        n_masses=draw(st.sampled_from([0, 1])) if topo != "aero" else 0,
        mode=draw(st.sampled_from(["auto", "fwd", "rev"])),
        two_surfaces=draw(st.booleans()) if topo == "aero" else (draw(st.sampled_from([False, False, True])) if topo == "aerostruct" else False),
        points=draw(st.lists(point(topo), min_size=2, max_size=4)),
    )
    if cfg["compressible"]:
        cfg["ground"] = False
        cfg["rotational"] = False
    return cfg


TWEAKS = ["alpha", "alpha", "alpha", "v", "rho", "Mach", "Mach", "re", "sweep", "taper", "load_factor", "omega_zero", "omega_zero",
          "omega", "twist", "chord", "thick", "cg", "height", "load_mag"]

RULES = {
    # like an optimiser iteration: set the point, analyse (outputs judged) and - if the flag is drawn - linearise (totals judged)
    "goto": st.tuples(st.integers(0, 3), st.booleans()).map(list),
    # change ONE input of the current point and keep everything else (alpha sweep at fixed geometry, rate back to zero, ...)
    "tweak": st.tuples(st.sampled_from(TWEAKS), S.fl(-1.0, 1.0, 0.5), st.booleans()).map(list),
    "run_model": None,
    "run_model_twice": None,
    "totals": None,
    "linearize": st.integers(1, 3),
    # (pattern, method)
    "check_partials": st.tuples(
        # broad groups first (every component of the model is reached with a few draws), then some single components
        st.sampled_from(["*", "*aero_states*", "*struct_states*", "*_perf*", "*total_perf*", "*geometry*", "*struct_setup*",
                         "*coupled*", "*wing*", "*mesh*", "*moment*", "*mtx_rhs*", "*load_transfer*", "*vonmises*",
                         "*struct_weight_loads*", "*vortex_mesh*", "*solve_matrix*", "*fem*", "*viscousdrag*", "*wavedrag*"]),
        st.sampled_from(["fd", "cs"]),
    ).map(list),
}


class Interp:
    def __init__(self, cfg):
        self.cfg = cfg
        self.labels = ["topo=" + cfg["topo"], "mode=" + cfg["mode"]]
        for k in ("viscous", "wave", "compressible", "ground", "rotational", "weight_relief", "two_surfaces"):
            if cfg.get(k):
                self.labels.append(k)
        if cfg["topo"] != "aero":
            self.labels.append("model=" + cfg["model"])
        self.labels.append("symmetric" if cfg["mesh"]["kind"] == "left" else "fullspan")
        self.residuals = {}
        self.prob, self.of, self.wrt = self.build()
        self.values = None
        self.cur = None
        self.ran = False
        self.cache = {}
        self.tol = 2e-8 if cfg["topo"] == "aerostruct" else 1e-9
        # OpenMDAO 3.45's check_partials leaves the approximation it computed in every declared-CONSTANT sub-Jacobian
        # (reproduced with pure-OpenMDAO components, explicit and implicit): after an fd check those carry FD noise.
        self.fd_polluted = False
        self.skipped_totals = 0
        self._constant_keys = None

    # ---- model construction ------------------------------------------------------------------------------------
    def build(self):
        cfg = self.cfg
        mesh = build_mesh(cfg["mesh"])
        sym = cfg["mesh"]["kind"] == "left"
        topo = cfg["topo"]
        ncp = 2
        if topo == "aero":
            kw = dict(with_viscous=cfg["viscous"], with_wave=cfg["wave"], twist_cp=np.zeros(ncp), chord_cp=np.ones(ncp),
                      sweep=0.0, taper=1.0)
            if cfg["ground"]:
                kw["groundplane"] = True
            surfaces = [aero_surface("wing", mesh, sym, **kw)]
            if cfg["two_surfaces"]:
                tail = mesh * 0.5 + np.array([float(mesh[:, :, 0].max()) + 3.0, 0.0, float(mesh[:, :, 2].max()) + 2.5])
                if sym:
                    tail[:, -1, 1] = 0.0
                kw2 = dict(with_viscous=cfg["viscous"], with_wave=False, twist_cp=np.zeros(ncp))
                if cfg["ground"]:
                    kw2["groundplane"] = True
                surfaces.append(aero_surface("tail", tail, sym, **kw2))
            fl = dict(alpha=3.0)
            if cfg["rotational"]:
                fl["omega"] = [0.0, 0.0, 0.0]
            p = aero_geom_problem(surfaces, fl, compressible=cfg["compressible"], height=10.0 if cfg["ground"] else None,
                                  setup=False)
            p.setup(mode=cfg["mode"], force_alloc_complex=True) if cfg["mode"] != "auto" else p.setup(force_alloc_complex=True)
            of = ["aero_point_0.CL", "aero_point_0.CD", "aero_point_0.CM", "aero_point_0.total_perf.moment.M",
                  "aero_point_0.wing_perf.CDv", "aero_point_0.wing_perf.CDw", "aero_point_0.wing_perf.L",
                  "aero_point_0.wing_perf.D", "aero_point_0.wing.S_ref"]
            wrt = ["alpha", "v", "rho", "Mach_number", "re", "cg", "wing.twist_cp", "wing.chord_cp", "wing.sweep", "wing.taper"]
            if cfg["rotational"]:
                wrt.append("omega")
            if cfg["ground"]:
                wrt.append("height_agl")
            self.outs = of + ["aero_point_0.aero_states.wing_sec_forces", "aero_point_0.aero_states.circulations", "wing.mesh"]
        elif topo == "struct":
            kw = dict(struct_weight_relief=cfg["weight_relief"], exact_failure_constraint=False)
            if cfg["n_masses"]:
                kw["n_point_masses"] = 1
            s = struct_surface("wing", mesh, sym, cfg["model"], **kw)
            extra = {}
            if cfg["n_masses"]:
                b = float(np.max(np.abs(mesh[:, :, 1])))
                extra = {"point_masses": (np.array([40.0]), "kg"),
                         "point_mass_locations": (np.array([[0.3, -0.4 * b, 0.0]]), "m"),
                         "engine_thrusts": (np.array([300.0]), "N")}
            p = struct_alone_problem(s, extra=extra, setup=False)
            p.setup(mode=cfg["mode"], force_alloc_complex=True) if cfg["mode"] != "auto" else p.setup(force_alloc_complex=True)
            of = ["disp", "vonmises", "failure", "structural_mass", "cg_location"]
            wrt = ["loads", "load_factor", "geometry.twist_cp"] if False else ["loads", "load_factor"]
            wrt += ["thickness_cp"] if cfg["model"] == "tube" else ["spar_thickness_cp", "skin_thickness_cp"]
            self.outs = list(of) + ["nodes", "local_stiff_transformed"]
        else:
            kw = dict(struct_weight_relief=cfg["weight_relief"], with_viscous=cfg["viscous"], with_wave=cfg["wave"])
            if cfg["n_masses"]:
                kw["n_point_masses"] = 1
            s = struct_surface("wing", mesh, sym, cfg["model"], **kw)
            b = float(np.max(np.abs(mesh[:, :, 1])))
            c = float(np.max(mesh[-1, :, 0] - mesh[0, :, 0]))
            s["E"] = s["E"] * max(1.0, (b / (8.0 * c)) ** 3)
            s["G"] = 0.4 * s["E"]
            fl = {}
            if cfg["n_masses"]:
                fl = dict(point_masses=[40.0], point_mass_locations=[[0.3, -0.4 * b, 0.0]], engine_thrusts=[300.0])
            surfs = [s]
            if cfg.get("two_surfaces"):
                # a second aerostructural surface (tube tail of half the size, behind and above the wing)
                tail = mesh * 0.5 + np.array([float(mesh[:, :, 0].max()) + 3.0, 0.0, float(mesh[:, :, 2].max()) + 1.5])
                if sym:
                    tail[:, -1, 1] = 0.0
                t = struct_surface("tail", tail, sym, "tube", struct_weight_relief=cfg["weight_relief"], with_viscous=cfg["viscous"])
                t["E"], t["G"] = s["E"], s["G"]
                t["thickness_cp"] = 0.01 * np.ones(2)
                surfs.append(t)
            p = aerostruct_problem(surfs, fl, compressible=cfg["compressible"], mode=cfg["mode"], force_alloc_complex=True)
            A = "AS_point_0."
            of = [A + "CL", A + "CD", A + "CM", A + "fuelburn", A + "wing_perf.failure", A + "L_equals_W",
                  A + "total_perf.moment.M", "wing.structural_mass"]
            if cfg.get("two_surfaces"):
                of += [A + "tail_perf.failure", A + "tail_perf.CL"]
            wrt = ["alpha", "v", "rho", "Mach_number", "load_factor", "wing.twist_cp"]
            wrt += ["wing.thickness_cp"] if cfg["model"] == "tube" else ["wing.spar_thickness_cp", "wing.skin_thickness_cp"]
            self.outs = of + [A + "coupled.wing.disp", A + "coupled.wing_loads.loads", A + "wing_perf.vonmises",
                              A + "coupled.aero_states.wing_sec_forces"]
            if cfg.get("two_surfaces"):
                self.outs += [A + "coupled.tail.disp", A + "coupled.aero_states.tail_sec_forces", A + "cg"]
                wrt = wrt + ["tail.twist_cp", "tail.thickness_cp"]
        return p, of, wrt

    def set_point(self, prob, pt):
        cfg = self.cfg
        topo = cfg["topo"]
        if topo in ("aero", "aerostruct"):
            prob.set_val("alpha", pt["alpha"])
            prob.set_val("v", pt["v"])
            prob.set_val("rho", pt["rho"])
            prob.set_val("Mach_number", pt["Mach"])
            prob.set_val("re", pt["re"])
            prob.set_val("wing.twist_cp", np.array(pt["twist"]))
        if topo == "aero":
            prob.set_val("cg", np.array(pt["cg"]))
            prob.set_val("wing.chord_cp", np.array(pt["chord"]))
            prob.set_val("wing.sweep", pt["sweep"])
            prob.set_val("wing.taper", pt["taper"])
            if cfg["rotational"]:
                prob.set_val("omega", np.array(pt["omega"]))
            if cfg["ground"]:
                prob.set_val("height_agl", pt["height"])
        if topo == "aerostruct":
            prob.set_val("load_factor", pt["load_factor"])
            prob.set_val("speed_of_sound", pt["v"] / pt["Mach"])
            pre = "wing."
        else:
            pre = ""
        if topo in ("struct", "aerostruct"):
            if cfg["model"] == "tube":
                prob.set_val(pre + "thickness_cp", 0.015 * np.array(pt["thick"]))
            else:
                prob.set_val(pre + "spar_thickness_cp", 0.006 * np.array(pt["thick"]))
                prob.set_val(pre + "skin_thickness_cp", 0.01 * np.array(pt["thick"][::-1]))
        if topo == "struct":
            ny = prob.get_val("loads").shape[0]
            rng = np.random.default_rng(pt["load_seed"])
            L = rng.uniform(-1.0, 1.0, size=(ny, 6)) * pt["load_mag"]
            L[np.abs(L) < 1e-2] = 1e-2
            prob.set_val("loads", L)
            prob.set_val("load_factor", pt["load_factor"])

    # ---- reference ---------------------------------------------------------------------------------------------
    def subjacs(self, prob):
        from openmdao.core.component import Component

        out = {}
        for c in prob.model.system_iter(recurse=True, typ=Component):
            if not type(c).__module__.startswith("openaerostruct"):
                continue
            jac = c._jacobian
            if jac is None:
                continue
            try:
                items = list(jac.items())
            except Exception:
                continue
            for (of, wrt), v in items:
                if hasattr(v, "toarray"):
                    v = v.toarray()
                out[(of, wrt)] = np.array(v, dtype=float).copy()
        return out

    def fresh(self):
        import json as _json

        i = _json.dumps(self.values, sort_keys=True)
        if i not in self.cache:
            old = (self.prob, self.of, self.wrt)
            p, of, wrt = self.build()
            self.set_point(p, self.values)
            p.run_model()
            outs = {k: np.array(p.get_val(k), float).copy() for k in self.outs}
            J = p.compute_totals(of=of, wrt=wrt)
            sj = self.subjacs(p)
            p.cleanup()
            self.prob, self.of, self.wrt = old
            self.cache[i] = (outs, {k: np.array(v).copy() for k, v in J.items()}, sj)
        return self.cache[i]

    def constant_keys(self):
        """sub-Jacobian keys whose fresh value is identical at two different design points (declared-constant partials)"""
        if self._constant_keys is None:
            saved = self.values
            idx = [i for i in range(len(self.cfg["points"]))][:2]
            refs = []
            for i in idx:
                self.values = dict(self.cfg["points"][i])
                refs.append(self.fresh()[2])
            self.values = saved
            a, b = refs
            self._constant_keys = {k for k in a if k in b and a[k].shape == b[k].shape and np.array_equal(a[k], b[k])}
        return self._constant_keys

    # ---- operations --------------------------------------------------------------------------------------------
    def enabled(self, op):
        if op == "goto":
            return True
        if op in ("run_model", "run_model_twice", "tweak"):
            return self.cur is not None
        return self.cur is not None and self.ran

    # the Breguet fuel burn ~ exp(c CD/CL) and everything computed from it (weight, L = W residual, cg, moments about it)
    # is singular at CL = 0: when the fresh problem's CL is zero to solver accuracy, +1e-21 and -1e-21 (both "converged")
    # give inf and -1607 kg.  Such a point has no defined value of these functionals; the other outputs are compared.
    # ... and an unloaded structure sits exactly on the kink of the von Mises stress sqrt(s^2 + 3 t^2) at zero, where its
    # derivative is 0/0: the direction picked by round-off (1e-25 displacements) differs between any two converged runs.
    SINGULAR = ("fuelburn", "L_equals_W", "CM", "M", "cg", "vonmises", "failure")

    def _singular(self, ref):
        if self.cfg["topo"] != "aerostruct":
            return False
        cl = np.asarray(ref.get("AS_point_0.CL", [1.0]), float)
        s = bool(np.all(np.isfinite(cl)) and abs(float(cl.ravel()[0])) < 1e-6)
        if s and "zero_lift_point" not in self.labels:
            self.labels.append("zero_lift_point")
        return s

    def _cmp_outputs(self, out):
        ref = self.fresh()[0]
        sing = self._singular(ref)
        for k in self.outs:
            if sing and k.split(".")[-1] in self.SINGULAR:
                continue
            a, b = np.asarray(self.prob.get_val(k), float), np.asarray(ref[k], float)
            fin = np.isfinite(b)
            if not np.all(fin):
                # a functional that is undefined at this point (Breguet fuel burn, hence cg and CM, at CL <= 0) is
                # undefined in the fresh problem as well: the same entries must be undefined, the others must agree
                out.true("outputs_undefined_pattern/" + k.split(".")[-1], a.shape == b.shape and np.array_equal(np.isfinite(a), fin),
                         "reused problem and fresh problem disagree on which entries of %s are finite" % k)
                self._undefined = True
                if a.shape != b.shape or not np.any(fin):
                    continue
                a, b = a[fin], b[fin]
            out.close("outputs/" + k.split(".")[-1], a, b, rtol=self.tol,
                      atol=self.tol * 1e-3 * (1.0 + float(np.max(np.abs(b)))) if self.cfg["topo"] == "aerostruct" else 0.0)

    def apply(self, op, args):
        out = Outcome()
        with_totals = False
        if op == "goto":
            idx, with_totals = (args, False) if isinstance(args, int) else args  # older replay files store a bare index
            self.cur = idx % len(self.cfg["points"])
            self.values = dict(self.cfg["points"][self.cur])
            self.set_point(self.prob, self.values)
            self.ran = False
        elif op == "tweak":
            name, frac, with_totals = args
            v = dict(self.values)
            rng = {"alpha": (-4.0, 9.0), "v": (30.0, 150.0), "rho": (0.3, 1.3), "Mach": (0.1, 0.88), "sweep": (-10.0, 25.0),
                   "taper": (0.4, 1.3), "load_factor": (0.5, 2.5), "height": (1.0, 100.0), "load_mag": (10.0, 1e4),
                   "re": (3e5, 1e7)}
            if name in rng:
                lo, hi = rng[name]
                v[name] = lo + (hi - lo) * 0.5 * (frac + 1.0)
            elif name == "omega_zero":
                v["omega"] = [0.0, 0.0, 0.0]
            elif name == "omega":
                v["omega"] = [0.5 * frac, -0.3 * frac, 0.2]
            elif name in ("twist", "chord", "thick"):
                arr = list(v[name])
                arr[0] = arr[0] + (2.0 * frac if name == "twist" else 0.2 * frac)
                v[name] = arr
            elif name == "cg":
                v["cg"] = [v["cg"][0] + frac, 0.0, v["cg"][2] - 0.3 * frac]
            self.values = v
            self.set_point(self.prob, self.values)
            self.ran = False
            if "tweak" not in self.labels:
                self.labels.append("tweak")
        if op in ("goto", "tweak"):
            self.prob.run_model()
            self.ran = True
            self._cmp_outputs(out)
            if with_totals and not out.fails:
                op = "totals"
        if op in ("goto", "tweak"):
            pass
        elif op in ("run_model", "run_model_twice"):
            self.prob.run_model()
            if op == "run_model_twice":
                self.prob.run_model()
            self.ran = True
            self._cmp_outputs(out)
        elif op == "linearize":
            for _ in range(args):
                self.prob.model.run_linearize()
        elif op == "check_partials":
            try:
                pat, method = args
                self.fd_polluted = True
                if method == "cs":
                    self.prob.check_partials(out_stream=None, includes=[pat], method="cs")
                else:
                    self.prob.check_partials(out_stream=None, includes=[pat], method="fd", step=1e-6)
            except Exception as e:  # patterns that match nothing raise in some OpenMDAO versions
                if "No matches" not in str(e) and "matches" not in str(e):
                    raise
            self._cmp_outputs(out)
        if op == "totals":
            J = self.prob.compute_totals(of=self.of, wrt=self.wrt)
            _, Jref, sjref = self.fresh()
            # After any check_partials the declared-constant sub-Jacobians may hold whatever approximation OpenMDAO
            # computed (a component's own set_check_partial_options can force fd even when cs was asked for, and the FD
            # noise is unbounded: 1.3e-2 seen on the permutation matrix of LocalStiffPermuted whose inputs are ~1e9).
            # Totals mix those constants into everything, so from then on only the NON-constant component partials are
            # judged (strictly) - they carry the sensitivity to stale caches; the skipped comparisons are counted.
            polluted = self.fd_polluted
            outs_ref = self.fresh()[0]

            def _fin(a, b, key, what=""):
                """derivatives of a functional that is undefined at this point are undefined in the fresh problem too:
                same pattern required, finite entries compared"""
                a, b = np.asarray(a, float), np.asarray(b, float)
                fin = np.isfinite(b)
                if np.all(fin):
                    return a, b
                out.true("derivatives_undefined_pattern/" + key, a.shape == b.shape and np.array_equal(np.isfinite(a), fin),
                         "reused and fresh problem disagree on which entries are finite (%s)" % (what,))
                if "undefined_point" not in self.labels:
                    self.labels.append("undefined_point")
                if a.shape != b.shape or not np.any(fin):
                    return None, None
                return a[fin], b[fin]

            sing = self._singular(outs_ref)
            if not polluted:
                for k, v in J.items():
                    if sing and k[0].split(".")[-1] in self.SINGULAR:
                        continue
                    v, Jref_k = _fin(v, Jref[k], "totals", k)
                    if v is None:
                        continue
                    sc = max(float(np.max(np.abs(Jref_k))), 1e-12)
                    fmag = float(np.max(np.abs(outs_ref[k[0]]))) if k[0] in outs_ref else 1.0
                    if not np.isfinite(fmag):
                        fmag = 1.0
                    xmag = max(float(np.max(np.abs(self.prob.get_val(k[1])))), 1.0)
                    out.close("totals/d_%s/d_%s" % (k[0].split(".")[-1], k[1].split(".")[-1]), v, Jref_k, rtol=self.tol,
                              atol=self.tol * max(fmag, 1e-6) / xmag, scale=sc)
            else:
                self.skipped_totals += 1
            sj = self.subjacs(self.prob)
            const = self.constant_keys() if polluted else set()
            for k, v in sj.items():
                if k in sjref and sjref[k].shape == v.shape and k not in const:
                    comp = k[0].split(".")[-2]
                    if sing and (".total_perf." in k[0] or k[0].split(".")[-1] in self.SINGULAR or k[1].split(".")[-1] in self.SINGULAR
                                 or any(c_ in ("vonmises", "failure") for c_ in k[0].split("."))):
                        continue
                    v, r = _fin(v, sjref[k], "partials", k)
                    if v is None:
                        continue
                    out.close("partials/%s:%s/%s" % (comp, k[0].split(".")[-1], k[1].split(".")[-1]), v, r,
                              rtol=self.tol, atol=self.tol * 1e-6)
        for k, v in out.residuals.items():
            kk = k.split("/")[0]
            if kk not in self.residuals or v[0] > self.residuals[kk][0]:
                self.residuals[kk] = v
        return out

    def nontrivial(self, hist):
        lin_ops = ("totals", "linearize", "check_partials")
        seen_lin_at = None
        changed = False
        cur = None
        n_lin_here = 0
        for op, a in hist:
            if op == "tweak":
                changed = True
                n_lin_here = 0
                cur = ("tweak", len(hist))
            elif op == "goto":
                a = [a, False] if isinstance(a, int) else a
                if cur is not None and a[0] != cur:
                    changed = True
                    n_lin_here = 0
                cur = a[0]
            if op in lin_ops or (op in ("goto", "tweak") and a[-1]):
                n_lin_here += 1
                if changed and seen_lin_at is not None:
                    return True
                if n_lin_here >= 2:
                    return True
                seen_lin_at = cur
        return False

    def close(self):
        try:
            self.prob.cleanup()
        except Exception:
            pass


SUBS = [HistorySub("history", config(), RULES, Interp, quick=96, thorough=1000, steps=(12, 30))]
