"""In-situ component derivative checking (DESIGN.md C01 layer (a)).

Every OpenAeroStruct component instance of a built-and-run model is re-instantiated alone (`type(c)(**options)`), fed
with the values its inputs actually had (optionally perturbed), and its reported derivatives (through
Problem.compute_totals of the one-component problem, i.e. exactly as the framework consumes them, sparsity pattern
included) are compared with real-valued numerical differentiation of run_model."""
import numpy as np
import openmdao.api as om

from . import numdiff

SKIP_OPTIONS = {"distributed", "run_root_only", "always_opt", "use_jit", "default_shape", "derivs_method",
                "assembled_jac_type"}
# partials the code itself declares as finite differences: the code's own claim is a forward difference
FD_DECLARED = {"WingboxGeometry": 5e-4}


# magnitude of the intermediates an output is computed from, where that is not the magnitude of the output itself
INTERMEDIATE_MAGNITUDE = {"ComputeTransformationMatrix": 1.0}


def leaf_components(model):
    from openmdao.core.component import Component

    for s in model.system_iter(recurse=True, include_self=False, typ=Component):
        if isinstance(s, om.IndepVarComp):
            continue
        if not type(s).__module__.startswith("openaerostruct"):
            continue
        yield s


def clone(comp):
    opts = {}
    for k, meta in comp.options._dict.items():
        if k in SKIP_OPTIONS:
            continue
        if not meta.get("has_been_set", True):
            continue
        try:
            v = comp.options[k]
        except Exception:
            continue
        opts[k] = v
    return type(comp)(**opts)


def io_values(comp):
    ins = {}
    for absn, meta in comp.list_inputs(out_stream=None, val=True, prom_name=False):
        ins[absn.split(".")[-1]] = np.array(meta["val"], float)
    outs = {}
    for absn, meta in comp.list_outputs(out_stream=None, val=True, prom_name=False):
        outs[absn.split(".")[-1]] = np.array(meta["val"], float)
    return ins, outs


def perturbation(x, rng, eps, name=""):
    m = float(np.max(np.abs(x))) if x.size else 0.0
    p = eps * (np.abs(x) + 0.02 * m) * rng.uniform(-1.0, 1.0, size=x.shape)
    if name == "local_stiff_transformed" and x.ndim == 3:
        # admissible stiffness matrices are symmetric (FEM shares one LU between forward and reverse solves)
        p = 0.5 * (p + np.transpose(p, (0, 2, 1)))
    return p


def direction(x, rng):
    m = float(np.max(np.abs(x))) if x.size else 0.0
    base = np.abs(x) + 0.05 * m
    if m == 0.0:
        base = np.ones_like(x)
    return base * rng.choice([-1.0, 1.0], size=x.shape) * rng.uniform(0.3, 1.0, size=x.shape)


class Solo:
    """one-component problem"""

    def __init__(self, comp_obj, ins, force_complex=False):
        self.p = om.Problem(reports=False)
        self.p.model.add_subsystem("c", comp_obj)
        self.p.setup(force_alloc_complex=force_complex)
        self.comp = comp_obj
        self.names = sorted(ins)
        self.set(ins)

    def set(self, ins):
        for k in self.names:
            self.p.set_val("c." + k, ins[k])

    def run(self):
        self.p.run_model()

    def outputs(self, outs):
        return np.concatenate([np.ravel(self.p.get_val("c." + o)) for o in outs]) if outs else np.zeros(0)

    def cleanup(self):
        try:
            self.p.cleanup()
        except Exception:
            pass


def check_explicit(out, comp, ins, out_names, rng, eps, tag, rtol=1e-6, per_input=True, skip_inputs=()):
    """judge an explicit component at in-situ inputs (+ relative perturbation eps). Returns number of comparisons."""
    cname = type(comp).__name__
    rtol = max(rtol, FD_DECLARED.get(cname, 0.0))
    solo = Solo(clone(comp), ins)
    n = 0
    try:
        x1 = {k: v + perturbation(v, rng, max(eps, 0.02)) for k, v in ins.items()}
        x2 = {k: v + perturbation(v, rng, eps) for k, v in ins.items()}
        of = ["c." + o for o in out_names]
        wrt_names = [k for k in solo.names if k not in skip_inputs and ins[k].size > 0]
        wrt = ["c." + k for k in wrt_names]
        if not of or not wrt:
            return 0
        # staleness: linearise at a first point, then move every input and linearise again
        solo.set(x1)
        solo.run()
        solo.p.compute_totals(of=of, wrt=wrt)
        solo.set(x2)
        solo.run()
        # compute must not write into its input vector (views of inputs modified in place)
        comp_in = solo.p.model.c._inputs
        for k in solo.names:
            if not np.array_equal(np.ravel(comp_in[k]), np.ravel(x2[k])):
                out.fail("%s:input_modified_in_place/%s" % (cname, k), "[%s] compute changed its input %s" % (tag, k))
        J = solo.p.compute_totals(of=of, wrt=wrt)
        for k in solo.names:
            if not np.array_equal(np.ravel(comp_in[k]), np.ravel(x2[k])):
                out.fail("%s:input_modified_in_place/%s" % (cname, k), "[%s] linearisation changed its input %s" % (tag, k))
        sizes = {o: int(np.size(solo.p.get_val("c." + o))) for o in out_names}
        fmags = {o: float(np.max(np.abs(solo.p.get_val("c." + o)))) if sizes[o] else 0.0 for o in out_names}
        # outputs formed as a difference from O(1) intermediates carry the round-off (and the quantisation: cos(1e-9) - 1 is
        # exactly 0) of those intermediates, not of their own small magnitude: ComputeTransformationMatrix returns R - I
        floor = INTERMEDIATE_MAGNITUDE.get(type(comp).__name__)
        if floor:
            fmags = {o: max(v, floor) for o, v in fmags.items()}

        def Jd(dirs):
            res = []
            for o in out_names:
                acc = np.zeros(sizes[o])
                for k, d in dirs.items():
                    blk = np.asarray(J["c." + o, "c." + k]).reshape(sizes[o], -1)
                    acc = acc + blk @ np.ravel(d)
                res.append(acc)
            return res

        def f_factory(dirs):
            def f(t):
                for k in solo.names:
                    solo.p.set_val("c." + k, x2[k] + (t * dirs[k] if k in dirs else 0.0))
                solo.run()
                return solo.outputs(out_names)

            return f

        groups = []
        if per_input:
            for k in wrt_names:
                groups.append({k: direction(x2[k], rng)})
        if len(wrt_names) > 1 or not per_input:
            groups.append({k: direction(x2[k], rng) for k in wrt_names})
        for dirs in groups:
            D, err, info = numdiff.dir_derivative(f_factory(dirs))
            if D is None:
                out.note_inconclusive("%s %s: no FD rung evaluable" % (tag, cname))
                continue
            jd = Jd(dirs)
            off = 0
            label = "+".join(sorted(dirs)) if len(dirs) == 1 else "all"
            for o, a in zip(out_names, jd):
                sl = slice(off, off + sizes[o])
                off += sizes[o]
                numdiff.judge(out, "%s:%s/%s" % (cname, o, label if len(dirs) == 1 else "joint"), a, D[sl], err[sl], rtol,
                              msg="[%s wrt %s]" % (tag, label), fmag=fmags[o])
                n += 1
        # restore
        solo.set(x2)
    finally:
        solo.cleanup()
    return n


def check_implicit(out, comp, ins, outs, rng, eps, tag, rtol=1e-6):
    """FEM / SolveMatrix: judged on what they report -- d R/d(inputs, state) against numerical differentiation of
    apply_nonlinear, linear-solve consistency in both modes, and the total-derivative identity through compute_totals."""
    cname = type(comp).__name__
    solo = Solo(clone(comp), ins)
    n = 0
    try:
        p = solo.p
        c = p.model.c
        x = {k: v + perturbation(v, rng, eps, k) for k, v in ins.items()}
        x1 = {k: v + perturbation(v, rng, 0.02, k) for k, v in ins.items()}
        solo.set(x1)
        solo.run()
        p.model.run_linearize()
        solo.set(x)
        solo.run()  # solve_nonlinear at the judged point
        p.model.run_linearize()
        state_names = sorted(outs)
        u0 = {k: np.array(p.get_val("c." + k), float).copy() for k in state_names}
        sub = {}
        for (of, wrt), v in c._jacobian.items():
            if hasattr(v, "toarray"):
                v = v.toarray()
            sub[(of.split(".")[-1], wrt.split(".")[-1])] = np.array(v, float)
        # dense blocks via the framework's own assembly: use compute_jacvec through apply_linear is version dependent;
        # instead rebuild dense blocks from declared rows/cols
        dense = {}
        for (of, wrt), v in sub.items():
            meta = c._subjacs_info.get(("c." + of, "c." + wrt)) or {}
            nr = u0[of].size
            nc = (x[wrt].size if wrt in x else u0[wrt].size)
            rows, cols = meta.get("rows"), meta.get("cols")
            if rows is not None:
                M = np.zeros((nr, nc))
                np.add.at(M, (np.asarray(rows), np.asarray(cols)), np.ravel(v))
            else:
                M = np.array(v, float).reshape(nr, nc)
            dense[(of, wrt)] = M

        def resid(xv, uv):
            for k in solo.names:
                p.set_val("c." + k, xv[k])
            for k in state_names:
                p.set_val("c." + k, uv[k])
            p.model.run_apply_nonlinear()
            return np.concatenate([np.ravel(c._residuals[k]) for k in state_names])

        # natural scale of the residual: |A||u| (the residual itself is ~0 at the solution)
        rmag = 0.0
        for s_ in state_names:
            M = dense.get((s_, s_))
            if M is not None:
                rmag = max(rmag, float(np.max(np.abs(M))) * float(np.max(np.abs(u0[s_]))))
        # residual partials, one direction per input and per state
        for name, base, is_state in [(k, x[k], False) for k in solo.names] + [(k, u0[k], True) for k in state_names]:
            if base.size == 0:
                continue
            d = direction(base, rng)

            def f(t, name=name, d=d, is_state=is_state):
                xv = dict(x)
                uv = dict(u0)
                if is_state:
                    uv[name] = u0[name] + t * d
                else:
                    xv[name] = x[name] + t * d
                return resid(xv, uv)

            D, err, info = numdiff.dir_derivative(f)
            if D is None:
                continue
            off = 0
            for s in state_names:
                M = dense.get((s, name))
                blk = np.zeros(u0[s].size) if M is None else M @ np.ravel(d)
                sl = slice(off, off + u0[s].size)
                off += u0[s].size
                numdiff.judge(out, "%s:R(%s)/%s" % (cname, s, name), blk, D[sl], err[sl], rtol, msg="[%s residual]" % tag,
                              fmag=rmag)
                n += 1
        # restore the converged state, re-solve so that the cached factorisation is the one of this point
        solo.set(x)
        solo.run()
        p.model.run_linearize()
        # linear solve consistency (single state variable)
        if len(state_names) == 1:
            s = state_names[0]
            A = dense[(s, s)]
            b = rng.uniform(-1.0, 1.0, size=u0[s].size)
            for mode in ("fwd", "rev"):
                if mode == "fwd":
                    d_out, d_res = {s: np.zeros_like(b)}, {s: b.copy()}
                    c.solve_linear(d_out, d_res, "fwd")
                    y = np.ravel(d_out[s]).copy()
                    r = A @ y - b
                else:
                    d_out, d_res = {s: b.copy()}, {s: np.zeros_like(b)}
                    c.solve_linear(d_out, d_res, "rev")
                    y = np.ravel(d_res[s]).copy()
                    r = A.T @ y - b
                sc = max(float(np.max(np.abs(A))) * float(np.max(np.abs(y))), 1e-300)
                out.le("%s:solve_linear/%s" % (cname, mode), float(np.max(np.abs(r))), 1e-8 * sc, "[%s] residual of the linear solve" % tag)
                n += 1
                # iterative linear solvers (LinearBlockGS, Krylov preconditioners) call solve_linear repeatedly on the SAME
                # vectors: the result vector must be overwritten, not accumulated into
                c.solve_linear(d_out, d_res, mode)
                y2 = np.ravel(d_out[s] if mode == "fwd" else d_res[s])
                out.close("%s:solve_linear_repeatable/%s" % (cname, mode), y2, y, rtol=1e-12,
                          msg="[%s] second call on the same vectors" % tag)
                n += 1
            # totals identity du/dx = -A^-1 dR/dx against the framework's totals
            wrt = [k for k in solo.names if x[k].size > 0]
            J = p.compute_totals(of=["c." + s], wrt=["c." + k for k in wrt])
            for k in wrt:
                M = dense.get((s, k))
                if M is None:
                    continue
                ref = -np.linalg.solve(A, M)
                got = np.asarray(J["c." + s, "c." + k]).reshape(ref.shape)
                out.close("%s:totals_identity/%s" % (cname, k), got, ref, rtol=1e-7, msg="[%s]" % tag)
                n += 1
    finally:
        solo.cleanup()
    return n
