"""Beam-level generators and OpenMDAO builders shared by the structural properties C10 / C15 / C16.

Descriptors are JSON-able dicts; dense per-element / per-node arrays are expanded from a Hypothesis-drawn integer seed
with amplitudes that are drawn separately (so that shrinking the amplitude to 0 gives the uniform / straight case).

beam descriptor
    kind       'sym'  (half model, clamped node = last = symmetry plane; y increases towards the root)
               'full' (full span, odd number of nodes, clamped node = centre)
    nel        elements per side (sym: ny = nel+1; full: ny = 2 nel+1)
    layout     'wing'    monotone y, per-element sweep / dihedral about the drawn mean (+- kink)
               'general' arbitrary element directions whose angle to the x axis is in [psi_min, 180-psi_min] deg
    L0, len_spread   element length = L0 * 10**(len_spread * U(-0.5, 0.5))
    sweep, dihedral, kink (deg)     layout 'wing'
    psi_min (deg, >= 5)             layout 'general'
    mirror     full span only: right side is the mirror image of the left side (else drawn independently)
    origin     [x, y, z] of the clamped node
    geo_seed
section descriptor
    eA, eIy, eIz, eJ   log10 of the base values;  spread (decades) ; tube (Iy = Iz);  sec_seed ; E ; G_over_E
load descriptor
    scale_exp   entries are 0 or  +-10**(scale_exp + U(0, 2)), scale_exp >= -3  (never in (0, 1e-3): CreateRHS zeroes |f| < 1e-6)
    density     fraction of non-zero entries; load_seed
"""
import numpy as np
from hypothesis import strategies as st

from . import strategies as S

MIN_ANGLE = 5.0


# ----------------------------------------------------------------------------------------------------------------
# strategies


def beam(kinds=("sym", "full"), nel=(1, 6), layouts=("wing", "wing", "general")):
    @st.composite
    def _b(draw):
        kind = draw(st.sampled_from(list(kinds)))
        d = dict(
            kind=kind,
            nel=draw(st.integers(nel[0], nel[1] if kind == "sym" else max(nel[0], (nel[1] + 1) // 2))),
            layout=draw(st.sampled_from(list(layouts))),
            L0=draw(S.fl(0.2, 4.0, 1.0)),
            len_spread=draw(S.fl(0.0, 1.0, 0.0)),
            sweep=draw(S.fl(-45.0, 55.0, 0.0)),
            dihedral=draw(S.fl(-30.0, 40.0, 0.0)),
            kink=draw(S.fl(0.0, 25.0, 0.0)),
            psi_min=draw(st.sampled_from([30.0, 5.0, 10.0])),
            mirror=draw(st.booleans()),
            origin=[draw(S.fl(-3.0, 3.0, 0.0)) for _ in range(3)],
            geo_seed=draw(st.integers(0, 10 ** 6)),
        )
        return d

    return _b()


def section(tube=None):
    @st.composite
    def _s(draw):
        tb = draw(st.booleans()) if tube is None else bool(tube)
        return dict(
            # from wind-tunnel-model / small-UAV spars (2 mm tube: A ~ 5e-6 m^2, I ~ 7e-12 m^4) to transport wings
            eA=draw(S.fl(-6.5, -1.0, -2.5)),
            eIy=draw(S.fl(-12.5, -4.5, -6.0)),
            eIz=draw(S.fl(-12.5, -4.5, -6.0)),
            eJ=draw(S.fl(-12.5, -4.5, -6.0)),
            spread=draw(S.fl(0.0, 1.0, 0.0)),
            tube=tb,
            sec_seed=draw(st.integers(0, 10 ** 6)),
            E=draw(S.logfl(9.0, 11.5, 7.0e10)),
            G_over_E=draw(S.fl(0.3, 0.5, 0.4)),
        )

    return _s()


def loads(lo=-3.0):
    return st.fixed_dictionaries(
        dict(scale_exp=S.fl(lo, 5.0, 2.0), density=st.sampled_from([1.0, 0.5, 0.2]), load_seed=st.integers(0, 10 ** 6))
    )


BEAM_DEFAULT = dict(kind="sym", nel=1, layout="wing", L0=1.0, len_spread=0.0, sweep=0.0, dihedral=0.0, kink=0.0,
                    psi_min=30.0, mirror=True, origin=[0.0, 0.0, 0.0], geo_seed=0)
SECTION_DEFAULT = dict(eA=-2.5, eIy=-6.0, eIz=-6.0, eJ=-6.0, spread=0.0, tube=True, sec_seed=0, E=7.0e10, G_over_E=0.4)
LOADS_DEFAULT = dict(scale_exp=2.0, density=1.0, load_seed=0)


# ----------------------------------------------------------------------------------------------------------------
# expansion


def beam_ny(d):
    return d["nel"] + 1 if d["kind"] == "sym" else 2 * d["nel"] + 1


def _outboard_dirs(d, rng, nel):
    """unit vectors pointing outboard (for a right wing: +y) and element lengths, root -> tip order"""
    L = d["L0"] * 10.0 ** (d["len_spread"] * rng.uniform(-0.5, 0.5, nel))
    if d["layout"] == "wing":
        sw = np.clip(d["sweep"] + d["kink"] * rng.uniform(-1, 1, nel), -70.0, 70.0)
        di = np.clip(d["dihedral"] + d["kink"] * rng.uniform(-1, 1, nel), -70.0, 80.0)
        v = np.stack([np.tan(np.radians(sw)), np.ones(nel), np.tan(np.radians(di))], axis=1)
    else:
        pm = max(float(d["psi_min"]), MIN_ANGLE)
        psi = np.radians(pm + rng.uniform(0, 1, nel) * (180.0 - 2 * pm))
        phi = rng.uniform(0, 2 * np.pi, nel)
        # make the first element sit exactly on the lower angle bound (boundary class)
        psi[0] = np.radians(pm)
        v = np.stack([np.cos(psi), np.sin(psi) * np.cos(phi), np.sin(psi) * np.sin(phi)], axis=1)
    v = v / np.linalg.norm(v, axis=1)[:, None]
    return v, L


def polyline(d):
    """nodes (ny, 3); index order = OpenAeroStruct's (left tip ... root [... right tip])"""
    rng = np.random.default_rng(int(d["geo_seed"]))
    nel = int(d["nel"])
    o = np.array(d["origin"], float)
    vL, LL = _outboard_dirs(d, rng, nel)
    # left side: outboard means -y in the 'wing' layout
    left_steps = vL * LL[:, None]
    if d["layout"] == "wing":
        left_steps = left_steps * np.array([1.0, -1.0, 1.0])
    left = o + np.cumsum(left_steps, axis=0)  # root -> tip
    nodes = np.vstack([left[::-1], o[None, :]])
    if d["kind"] == "full":
        if d["mirror"]:
            right_steps = left_steps * np.array([1.0, -1.0, 1.0])
        else:
            vR, LR = _outboard_dirs(d, rng, nel)
            right_steps = vR * LR[:, None]
        right = o + np.cumsum(right_steps, axis=0)
        nodes = np.vstack([nodes, right])
    return np.ascontiguousarray(nodes)


def section_props(s, nel_total):
    rng = np.random.default_rng(int(s["sec_seed"]))
    f = 10.0 ** (s["spread"] * rng.uniform(-1, 1, (4, nel_total)))
    A = 10.0 ** s["eA"] * f[0]
    Iy = 10.0 ** s["eIy"] * f[1]
    Iz = 10.0 ** s["eIz"] * f[2]
    J = 10.0 ** s["eJ"] * f[3]
    if s["tube"]:
        Iz = Iy.copy()
    return A, Iy, Iz, J


def nodal_loads(l, ny, seed_offset=0, vector_mask=False, root=None):
    """vector_mask: the force (moment) 3-vector of a node is either entirely zero or has three non-zero components"""
    rng = np.random.default_rng(int(l["load_seed"]) + 7919 * seed_offset)
    mag = 10.0 ** (l["scale_exp"] + rng.uniform(0, 2, (ny, 6)))
    sign = np.where(rng.uniform(size=(ny, 6)) < 0.5, -1.0, 1.0)
    mask = rng.uniform(size=(ny, 6)) < l["density"]
    if vector_mask:
        mask = np.repeat(mask[:, [0, 3]], 3, axis=1)
    out = np.where(mask, sign * mag, 0.0)
    free = np.ones(ny, bool)
    if root is not None:
        free[root] = False
    if not np.any(out[free]):
        # guarantee a load on a non-clamped node (node 0 is a tip in every layout): full force vector
        out[0, :3] = (sign * mag)[0, :3]
    return out


def material(s):
    return float(s["E"]), float(s["E"] * s["G_over_E"])


# ----------------------------------------------------------------------------------------------------------------
# OpenMDAO builders


def beam_surface(ny, symmetry, E, G, model="tube", **kw):
    s = {
        "name": "wing",
        "symmetry": bool(symmetry),
        "mesh": np.zeros((2, ny, 3)),
        "fem_model_type": model,
        "E": E,
        "G": G,
        "yield": 2.0e8,
        "mrho": 3.0e3,
        "fem_origin": 0.35,
        "wing_weight_ratio": 1.0,
        "struct_weight_relief": False,
        "distributed_fuel_weight": False,
        "exact_failure_constraint": False,
        "strength_factor_for_upper_skin": 1.0,
        "Wf_reserve": 0.0,
        "fuel_density": 803.0,
    }
    s.update(kw)
    return s


def beam_problem(nodes, A, Iy, Iz, J, E, G, symmetry, model="tube"):
    """AssembleKGroup + SpatialBeamStates fed directly (layer (a) of C10).  Inputs: nodes, A, Iy, Iz, J, loads."""
    import openmdao.api as om
    from openaerostruct.structures.assemble_k_group import AssembleKGroup
    from openaerostruct.structures.spatial_beam_states import SpatialBeamStates

    ny = nodes.shape[0]
    surf = beam_surface(ny, symmetry, E, G, model)
    p = om.Problem(reports=False)
    ivc = om.IndepVarComp()
    ivc.add_output("nodes", val=np.array(nodes, float), units="m")
    ivc.add_output("A", val=np.array(A, float), units="m**2")
    for n, v in (("Iy", Iy), ("Iz", Iz), ("J", J)):
        ivc.add_output(n, val=np.array(v, float), units="m**4")
    ivc.add_output("loads", val=np.zeros((ny, 6)), units="N")
    p.model.add_subsystem("ivc", ivc, promotes=["*"])
    p.model.add_subsystem("k", AssembleKGroup(surface=surf), promotes=["*"])
    p.model.add_subsystem("s", SpatialBeamStates(surface=surf), promotes=["*"])
    p.setup()
    return p


def solve_loads(p, loads):
    p.set_val("loads", np.array(loads, float))
    p.run_model()
    return p.get_val("disp").copy()


def run_comp(comp, inputs, units=None):
    """one component behind an IndepVarComp; inputs: name -> value; units: name -> unit string"""
    import openmdao.api as om

    units = units or {}
    p = om.Problem(reports=False)
    ivc = om.IndepVarComp()
    for k, v in inputs.items():
        ivc.add_output(k, val=v, units=units.get(k))
    p.model.add_subsystem("ivc", ivc, promotes=["*"])
    p.model.add_subsystem("c", comp, promotes=["*"])
    p.setup()
    p.run_model()
    return p
