"""C18  Viscous and wave drag estimates are well-behaved and discretisation-consistent (DESIGN.md section 4, C18).

Metamorphic relations only: nothing of the flat-plate / form-factor correlations is re-derived.  The only closed form used
is the crest-critical Mach number of the Korn relation named in the property (needed to know on which side of the onset a
generated Mach number lies)."""
import numpy as np
from hypothesis import strategies as st

from oasv import strategies as S
from oasv.core import Outcome, Sub
from oasv.layouts import symmetry_of
from oasv.meshes import build_mesh
from oasv.models import aero_direct, aero_surface

RULE = (
    "viscous_relations / wave_relations: Hypothesis draws a wing mesh (symmetric halves and full span, taper, sweep < 60 deg, "
    "dihedral, twist, camber; nx 2-4, ny 2-11), VLMGeometry turns it into widths / lengths / chords / S_ref, and the drawn "
    "laminar fraction k_lam in {0} u (0,1) u {1}, thickness ratios in (0.01,0.3] per panel (seed-expanded), Mach in (0.02,0.94), "
    "unit Reynolds numbers with turbulent and laminar chord Reynolds numbers > 1e3, CL in [-0.5,1.5] are fed to ViscousDrag / "
    "WaveDrag as one-component problems; the with_viscous / with_wave flags are given as Python bools or numpy bools.  "
    "Relations: option off => exactly 0.0; CDv > 0; Re1 < Re2 => CDv1 > CDv2; larger t/c => larger CDv; reversing the spanwise "
    "order of all strip inputs leaves CDv and CDw unchanged (strip sum); CDw exactly 0 at and below the Korn crest-critical "
    "Mach number (area-weighted sweep and t/c), > 0 above, non-decreasing (strictly increasing once positive) in Mach and CL; "
    "onset located by bisection on the component: it coincides with the Korn value, the difference quotient CDw(M*+h)/h -> 0 "
    "(C1) and CDw(M*+2h) = 16 CDw(M*+h) (the fourth-power law of the property's mechanism).  mesh_independence: constant-chord, "
    "untwisted, uncambered wings (sweep, dihedral drawn) in two discretisations (nx, ny, uniform/cosine blends, geometric spanwise clustering with strips down to 1e-4 of the span, left/right half "
    "or full span, same symmetry flag): CDv and CDw (same CL, uniform t/c) agree to 1e-10, also CDv through AeroPoint.  "
    "switches_group: AeroPoint with all four flag combinations: off => CDv, CDw exactly 0.0, CD = CDi + CDv + CDw + CD0, and "
    "switching one estimate does not change the other terms.  non-trivial: option on and a positive estimate in at least one "
    "evaluation (wave: a Mach number above the onset); distinct = descriptor digest."
)
ASSUMPTIONS = [
    "monotonicity is asserted strictly; the generator keeps Re2/Re1 >= 1.02 and t/c increments >= 1e-3 (one strip or all)",
    "the laminar-fraction domain [0,1] is closed: CDv at k_lam = 1 equals the limit k_lam -> 1 (1 - 1e-9, rtol 1e-7)",
    "domain: Re_c >= 1.01e3 for the full chord and for the laminar run k_lam*chord, 0.02 <= M <= 0.94, t/c in [0.01,0.3], quarter-chord "
    "sweep < 60 deg",
    "Korn crest-critical Mach: Mcrit = 0.95/c - (t/c)/c^2 - CL/(10 c^3) - (0.1/80)^(1/3) with c, t/c the panel-area weighted "
    "means (technology factor 0.95 as documented in the component); onset agreement 1e-9, cases with |M - Mcrit| < 1e-7 are not "
    "judged for sign",
    "fourth-power law: ratio CDw(M*+2h)/CDw(M*+h) = 16 within 1e-6 for h in {0.02, 0.005}; C1: CDw(M*+h)/h <= 10 h",
    "mesh independence 1e-10 relative (measured floor ~1e-15); CDw comparisons allow a Mach shift of 1e-11 because "
    "20 (M - Mcrit)^4 is ill-conditioned in relative terms next to the onset; symmetric surfaces are compared with symmetric ones, full with "
    "full (the factor 2 of CDw on symmetric surfaces is C04's finding and cancels here)",
]

KA = 0.95


# ----------------------------------------------------------------------------------------------------------------
# strategies


def wing_mesh(nx=(2, 4), nyh=(2, 6)):
    @st.composite
    def _m(draw):
        d = draw(S.mesh(kinds=("left", "right", "full", "asym"), nx=nx, nyh=nyh, winglet=False))
        d["side"]["sweep"] = draw(S.fl(-30.0, 55.0, 0.0, 30.0))
        if "right" in d:
            d["right"]["sweep"] = draw(S.fl(-30.0, 55.0, 0.0))
        return d

    return _m()


def flag_kind():
    return st.sampled_from(["bool", "np.bool_"])


def viscous_config():
    return st.fixed_dictionaries(
        dict(
            mesh=wing_mesh(),
            k_lam=st.one_of(st.sampled_from([0.05, 0.0, 1.0]), st.floats(0.01, 0.99)),
            c_max_t=S.fl(0.2, 0.5, 0.303),
            Mach=st.floats(0.02, 0.94),
            re_decades=st.floats(0.0, 4.0),
            re_step=st.one_of(st.floats(0.0087, 0.1), st.floats(0.1, 2.0)),
            toc_seed=st.integers(0, 10 ** 6),
            toc_inc=st.sampled_from(["all", "one"]),
            toc_delta=st.floats(1e-3, 0.1),
            flag=flag_kind(),
        )
    )


def wave_config():
    return st.fixed_dictionaries(
        dict(
            mesh=wing_mesh(),
            CL=S.fl(-0.5, 1.5, 0.5, 0.0),
            dCL=st.floats(1e-3, 0.5),
            toc_seed=st.integers(0, 10 ** 6),
            toc_lo=st.floats(0.01, 0.2),
            toc_spread=st.floats(0.0, 0.1),
            M_frac=st.lists(st.floats(0.0, 1.0), min_size=2, max_size=2),
            M_place=st.sampled_from(["straddle", "above", "straddle", "below", "free"]),
            flag=flag_kind(),
        )
    )


def discretisation():
    return st.fixed_dictionaries(
        dict(
            kind_pick=st.integers(0, 1),
            nx=st.integers(2, 5),
            nyh=st.integers(2, 7),
            span_blend=S.fl(0.0, 1.0, 0.0, 1.0),
            chord_blend=S.fl(0.0, 1.0, 0.0, 1.0),
            # geometric spanwise clustering (ratio of neighbouring strip widths; 1 = as built): strips down to 1e-4 of the span
            cluster=st.one_of(st.just(1.0), st.floats(1.0, 6.0), st.sampled_from([3.0, 4.5, 6.0])),
            cluster_tip=st.booleans(),
        )
    )


def independence_config():
    return st.fixed_dictionaries(
        dict(
            symmetric=st.booleans(),
            b=S.fl(2.0, 12.0, 5.0),
            chord=S.fl(0.4, 3.0, 1.0),
            sweep=S.fl(-30.0, 55.0, 0.0, 30.0),
            dihedral=S.fl(-12.0, 15.0, 0.0),
            root=st.lists(S.fl(-3.0, 3.0, 0.0), min_size=2, max_size=2),
            A=discretisation(),
            B=discretisation(),
            k_lam=st.one_of(st.sampled_from([0.05, 0.0, 1.0]), st.floats(0.01, 0.99)),
            toc=st.floats(0.02, 0.3),
            Mach=st.floats(0.3, 0.94),
            CL=S.fl(-0.5, 1.5, 0.6),
            re_decades=st.floats(0.0, 3.0),
            alpha=S.fl(-5.0, 8.0, 3.0),
            group=st.sampled_from([False, False, True]),
        )
    )


def switches_config():
    return st.fixed_dictionaries(
        dict(
            mesh=S.mesh(kinds=("left", "right", "full", "asym"), nx=(2, 3), nyh=(2, 4), winglet=False),
            flow=S.flow(beta=False, rot=False, mach=(0.5, 0.93)),
            Mach=st.floats(0.55, 0.93),
            with_viscous=st.booleans(),
            with_wave=st.booleans(),
            flag=flag_kind(),
            CD0=S.fl(0.0, 0.05, 0.015, 0.0),
            CL0=st.sampled_from([0.0, 0.0, 0.15, 0.3, -0.1]),
            toc=st.floats(0.05, 0.2),
            k_lam=st.sampled_from([0.05, 0.0, 1.0, 0.3]),
            comp=st.lists(st.floats(-0.5, 0.5), min_size=4, max_size=4),
        )
    )


# ----------------------------------------------------------------------------------------------------------------
# helpers


def flag(kind, value):
    return bool(value) if kind == "bool" else np.bool_(value)


def one_comp(comp, **vals):
    """one-component problem that can be re-run with new input values (explicit components keep no state)"""
    import openmdao.api as om

    p = om.Problem(reports=False)
    p.model.add_subsystem("c", comp, promotes=["*"])
    p.setup()
    for k, v in vals.items():
        p.set_val(k, v)
    return p


def evaluate(p, out_name, **vals):
    for k, v in vals.items():
        p.set_val(k, v)
    p.run_model()
    return float(np.asarray(p.get_val(out_name)).ravel()[0])


def geometry_of(mesh, symmetry):
    from openaerostruct.aerodynamics.geometry import VLMGeometry

    surf = aero_surface("wing", mesh, symmetry)
    p = one_comp(VLMGeometry(surface=surf), def_mesh=mesh)
    p.run_model()
    return {k: np.array(p.get_val(k)).copy() for k in ("widths", "lengths", "lengths_spanwise", "chords", "S_ref")}


def korn_mcrit(g, toc, CL):
    cbar = 0.5 * (g["chords"][1:] + g["chords"][:-1])
    area = cbar * g["widths"]
    cosw = g["widths"] / g["lengths_spanwise"]
    c = float(np.sum(cosw * area) / np.sum(area))
    t = float(np.sum(toc * area) / np.sum(area))
    return KA / c - t / c ** 2 - CL / (10.0 * c ** 3) - (0.1 / 80.0) ** (1.0 / 3.0)


def reversed_inputs(d):
    return {k: (np.asarray(v)[::-1].copy() if np.ndim(v) == 1 and np.size(v) > 1 else v) for k, v in d.items()}


def bracketed(out, key, value, f, M, dM=1e-11, rtol=1e-10):
    """value must equal f(M) up to a shift dM of the Mach number (CDw ~ (M - Mcrit)^4 is ill-conditioned in relative terms
    next to the onset, where the rounding of Mcrit matters) and a relative rounding slack"""
    lo_v, hi_v = f(M - dM), f(M + dM)
    ok = lo_v * (1.0 - rtol) <= value <= hi_v * (1.0 + rtol)
    out.true(key, ok, "%.17g not within [%.17g, %.17g]" % (value, lo_v, hi_v))
    return ok


# ----------------------------------------------------------------------------------------------------------------
# viscous


def verdict_viscous(desc):
    from openaerostruct.aerodynamics.viscous_drag import ViscousDrag

    out = Outcome()
    md = desc["mesh"]
    mesh = build_mesh(md)
    sym = symmetry_of(md)
    g = geometry_of(mesh, sym)
    k = float(desc["k_lam"])
    ny = mesh.shape[1]
    rng = np.random.default_rng(int(desc["toc_seed"]))
    toc = rng.uniform(0.01, 0.3 - desc["toc_delta"], size=ny - 1)
    toc2 = toc.copy()
    if desc["toc_inc"] == "all":
        toc2 += desc["toc_delta"]
    else:
        toc2[int(rng.integers(0, ny - 1))] += desc["toc_delta"]
    cbar = 0.5 * (g["lengths"][1:] + g["lengths"][:-1])
    re_min = 1.01e3 / (float(np.min(cbar)) * (k if k > 0.0 else 1.0))
    re1 = re_min * 10.0 ** desc["re_decades"]
    re2 = re1 * 10.0 ** desc["re_step"]
    base = dict(Mach_number=desc["Mach"], S_ref=g["S_ref"], widths=g["widths"], lengths_spanwise=g["lengths_spanwise"],
                lengths=g["lengths"], t_over_c=toc)

    def surf(on):
        return aero_surface("wing", mesh, sym, with_viscous=flag(desc["flag"], on), k_lam=k, c_max_t=desc["c_max_t"])

    p_on = one_comp(ViscousDrag(surface=surf(True)), **base)
    a = evaluate(p_on, "CDv", re=re1)
    b = evaluate(p_on, "CDv", re=re2)
    c = evaluate(p_on, "CDv", re=re1, t_over_c=toc2)
    rev = reversed_inputs(base)
    r = evaluate(p_on, "CDv", re=re1, **rev)
    p_off = one_comp(ViscousDrag(surface=surf(False)), **base)
    z = evaluate(p_off, "CDv", re=re1)

    out.true("viscous/off_is_exactly_zero", z == 0.0, "CDv = %r with with_viscous=%r" % (z, flag(desc["flag"], False)))
    out.true("viscous/positive", a > 0.0 and b > 0.0 and c > 0.0, "CDv = %r, %r, %r (k_lam %g, flag %s)" % (a, b, c, k, desc["flag"]))
    if a > 0.0:
        out.true("viscous/decreasing_in_Re", b < a,
                 "Re %.6g -> %.6g: CDv %.16g -> %.16g" % (re1, re2, a, b))
        out.true("viscous/increasing_in_t_over_c", c > a, "t/c + %.3g (%s): CDv %.16g -> %.16g" % (desc["toc_delta"], desc["toc_inc"], a, c))
        out.close("viscous/strip_order_invariance", [r], [a], rtol=1e-12)
        if k == 1.0:
            # closed end of the stated domain of laminar fractions: no jump between the k_lam = 1 branch and k_lam -> 1
            s1 = aero_surface("wing", mesh, sym, with_viscous=True, k_lam=1.0 - 1e-9, c_max_t=desc["c_max_t"])
            a1 = evaluate(one_comp(ViscousDrag(surface=s1), **base), "CDv", re=re1)
            out.close("viscous/continuous_at_k_lam=1", [a1], [a], rtol=1e-7)
    out.label("k_lam=" + ("0" if k == 0.0 else ("1" if k == 1.0 else "(0,1)")), "kind=" + md["kind"], "flag=" + desc["flag"],
              "toc_inc=" + desc["toc_inc"])
    if desc["re_step"] < 0.1:
        out.label("small_Re_step")
    out.nontrivial = bool(a > 0.0)
    return out


# ----------------------------------------------------------------------------------------------------------------
# wave


def bisect_onset(f, lo, hi, iters=60):
    """largest M with f(M) == 0 in [lo, hi] given f(lo) == 0 < f(hi)"""
    for _ in range(iters):
        mid = 0.5 * (lo + hi)
        if f(mid) > 0.0:
            hi = mid
        else:
            lo = mid
    return lo, hi


def verdict_wave(desc):
    from openaerostruct.aerodynamics.wave_drag import WaveDrag

    out = Outcome()
    md = desc["mesh"]
    mesh = build_mesh(md)
    sym = symmetry_of(md)
    g = geometry_of(mesh, sym)
    ny = mesh.shape[1]
    rng = np.random.default_rng(int(desc["toc_seed"]))
    toc = desc["toc_lo"] + desc["toc_spread"] * rng.uniform(0.0, 1.0, size=ny - 1)
    CL = float(desc["CL"])
    CL2 = CL + desc["dCL"]
    base = dict(widths=g["widths"], lengths_spanwise=g["lengths_spanwise"], chords=g["chords"], t_over_c=toc)

    def surf(on):
        return aero_surface("wing", mesh, sym, with_wave=flag(desc["flag"], on))

    p_on = one_comp(WaveDrag(surface=surf(True)), **base)
    p_off = one_comp(WaveDrag(surface=surf(False)), **base)
    mc = korn_mcrit(g, toc, CL)
    mc2 = korn_mcrit(g, toc, CL2)
    lo, hi = 0.02, 0.94
    f1, f2 = sorted(desc["M_frac"])
    # two Mach numbers in the domain, placed relative to the onset when it lies inside the domain
    place = desc["M_place"] if lo + 0.01 < mc < hi - 0.01 else "free"
    lo1, hi1, lo2, hi2 = dict(straddle=(lo, mc, mc, hi), above=(mc, hi, mc, hi), below=(lo, mc, lo, mc), free=(lo, hi, lo, hi))[place]
    M1 = lo1 + (hi1 - lo1) * f1
    M2 = lo2 + (hi2 - lo2) * f2
    if M2 <= M1 + 1e-3:
        M2 = M1 + 1e-3

    def cdw(M, cl=CL):
        return evaluate(p_on, "CDw", Mach_number=M, CL=cl)

    w1, w2 = cdw(M1), cdw(M2)
    z = evaluate(p_off, "CDw", Mach_number=M2, CL=CL)
    out.true("wave/off_is_exactly_zero", z == 0.0, "CDw = %r with with_wave=%r at M %.4f" % (z, flag(desc["flag"], False), M2))
    for M, w in ((M1, w1), (M2, w2)):
        if M <= mc - 1e-7:
            out.true("wave/zero_below_crest_critical_Mach", w == 0.0, "M %.6f <= Mcrit %.6f but CDw = %r" % (M, mc, w))
        elif M >= mc + 1e-7:
            out.true("wave/positive_above_crest_critical_Mach", w > 0.0, "M %.6f > Mcrit %.6f but CDw = %r" % (M, mc, w))
    out.true("wave/nondecreasing_in_Mach", w2 >= w1 and (w2 > w1 or w2 == 0.0), "M %.6f -> %.6f: CDw %.16g -> %.16g" % (M1, M2, w1, w2))
    # lift
    w2L = cdw(M2, CL2)
    out.true("wave/nondecreasing_in_CL", w2L >= w2 and (w2L > w2 or w2L == 0.0),
             "CL %.4f -> %.4f at M %.5f: CDw %.16g -> %.16g" % (CL, CL2, M2, w2, w2L))
    if M2 <= mc2 - 1e-7:
        out.true("wave/zero_below_crest_critical_Mach", w2L == 0.0, "M %.6f <= Mcrit(CL2) %.6f but CDw = %r" % (M2, mc2, w2L))
    # strip order
    r = evaluate(p_on, "CDw", Mach_number=M2, CL=CL, **reversed_inputs(base))
    for kk, vv in base.items():
        p_on.set_val(kk, vv)
    bracketed(out, "wave/strip_order_invariance", r, cdw, M2)
    # onset: location, C1, fourth-power growth
    inside = lo + 0.01 < mc < hi - 0.05
    if inside and not cdw(hi) > 0.0:
        out.fail("wave/positive_above_crest_critical_Mach", "Mcrit %.6f but CDw(%.2f) = %r" % (mc, hi, cdw(hi)))
    elif inside:
        a, b = bisect_onset(cdw, lo, hi)
        ms = 0.5 * (a + b)
        out.le("wave/onset_at_korn_crest_critical_Mach", abs(ms - mc), 1e-9)
        for h in (1e-2, 1e-3, 1e-4):
            if ms + h < 0.99:
                out.le("wave/onset_C1", cdw(b + h) / h, 10.0 * h)
        for h in (0.02, 0.005):
            if b + 2 * h < 0.99:
                den = cdw(b + h)
                if den > 0.0:
                    out.le("wave/fourth_power_growth", abs(cdw(b + 2 * h) / den / 16.0 - 1.0), 1e-6)
                else:
                    out.fail("wave/positive_above_crest_critical_Mach", "CDw = %r at onset + %g" % (den, h))
    if inside:
        out.label("onset_inside_domain")
    else:
        out.label("onset_below_domain" if mc <= lo + 0.01 else "onset_above_domain")
    out.label("kind=" + md["kind"], "flag=" + desc["flag"])
    out.label("M1,M2:" + ("below,below" if M2 < mc else ("below,above" if M1 < mc else "above,above")))
    out.nontrivial = bool(w2 > 0.0 or w2L > 0.0)
    return out


# ----------------------------------------------------------------------------------------------------------------
# discretisation independence on constant-chord untwisted wings


def rect_mesh(desc, disc):
    sym = desc["symmetric"]
    kind = (("left", "right")[disc["kind_pick"]]) if sym else "full"
    side = dict(b=desc["b"], chord=desc["chord"], sweep=desc["sweep"], taper=1.0, dihedral=desc["dihedral"], twist=0.0, camber=0.0,
                winglet=0.0, winglet_dih=60.0)
    md = dict(kind=kind, nx=disc["nx"], nyh=disc["nyh"], span_blend=disc["span_blend"], chord_blend=disc["chord_blend"],
              root_twist=0.0, root_x=desc["root"][0], root_y=0.0, root_z=desc["root"][1], noise_amp=0.0, noise_seed=0, side=side)
    return cluster_span(build_mesh(md), kind, float(disc.get("cluster", 1.0)), bool(disc.get("cluster_tip", True))), kind


def cluster_span(mesh, kind, ratio, at_tip):
    """re-distribute the spanwise stations of a straight-edged (constant chord, linear sweep / dihedral) half or full wing
    geometrically: neighbouring strip widths in the given ratio, finest at the tip or at the root.  The planform is unchanged."""
    if ratio == 1.0:
        return mesh
    mesh = mesh.copy()
    ny = mesh.shape[1]
    halves = [(0, ny - 1)] if kind != "full" else [(0, (ny - 1) // 2), ((ny - 1) // 2, ny - 1)]
    for i0, i1 in halves:
        n = i1 - i0
        if n < 2:
            continue
        w = ratio ** np.arange(n)
        eta = np.concatenate([[0.0], np.cumsum(w) / np.sum(w)])
        # which end of this run of columns is the tip: the one farther from the symmetry plane / centre line
        tip_first = abs(mesh[0, i0, 1]) > abs(mesh[0, i1, 1])
        fine_first = (tip_first == at_tip)
        if not fine_first:
            eta = 1.0 - eta[::-1]
        a, b = mesh[:, i0, :].copy(), mesh[:, i1, :].copy()
        for j in range(1, n):
            mesh[:, i0 + j, :] = a + eta[j] * (b - a)
    return mesh


def verdict_independence(desc):
    from openaerostruct.aerodynamics.viscous_drag import ViscousDrag
    from openaerostruct.aerodynamics.wave_drag import WaveDrag

    out = Outcome()
    sym = desc["symmetric"]
    k = float(desc["k_lam"])
    re = 1.01e3 / (desc["chord"] * (k if k > 0 else 1.0)) * 10.0 ** desc["re_decades"]
    res = []
    kinds = []
    for key in ("A", "B"):
        mesh, kind = rect_mesh(desc, desc[key])
        kinds.append(kind)
        g = geometry_of(mesh, sym)
        ny = mesh.shape[1]
        toc = desc["toc"] * np.ones(ny - 1)
        surf = aero_surface("wing", mesh, sym, with_viscous=True, with_wave=True, k_lam=k)
        pv = one_comp(ViscousDrag(surface=surf), re=re, Mach_number=desc["Mach"], S_ref=g["S_ref"], widths=g["widths"],
                      lengths_spanwise=g["lengths_spanwise"], lengths=g["lengths"], t_over_c=toc)
        pw = one_comp(WaveDrag(surface=surf), Mach_number=desc["Mach"], widths=g["widths"], lengths_spanwise=g["lengths_spanwise"],
                      CL=desc["CL"], chords=g["chords"], t_over_c=toc)
        r = dict(CDv=evaluate(pv, "CDv"), CDw=evaluate(pw, "CDw"), mesh=mesh, g=g, pw=pw)
        if desc["group"]:
            s2 = aero_surface("wing", mesh, sym, with_viscous=True, with_wave=False, k_lam=k)
            fl = dict(alpha=desc["alpha"], beta=0.0, v=100.0, rho=1.0, Mach=desc["Mach"], re=re)
            prob = aero_direct([s2], fl, t_over_c=[desc["toc"]])
            prob.run_model()
            r["CDv_group"] = float(prob.get_val("aero_point_0.wing_perf.CDv")[0])
        res.append(r)
    A, B = res
    out.close("independence/CDv", [A["CDv"]], [B["CDv"]], rtol=1e-10)
    bracketed(out, "independence/CDw", B["CDw"], lambda M: evaluate(A["pw"], "CDw", Mach_number=M), desc["Mach"])
    if desc["group"]:
        out.close("independence/CDv_group", [A["CDv_group"]], [B["CDv_group"]], rtol=1e-10)
        out.close("independence/CDv_group_vs_component", [A["CDv_group"]], [A["CDv"]], rtol=1e-10)
        out.label("through_AeroPoint")
    dA, dB = desc["A"], desc["B"]
    out.label("symmetric" if sym else "full_span")
    if sym and kinds[0] != kinds[1]:
        out.label("left_vs_right_half")
    if dA["nx"] != dB["nx"]:
        out.label("nx_differs")
    if dA["nyh"] != dB["nyh"]:
        out.label("ny_differs")
    if dA["span_blend"] != dB["span_blend"]:
        out.label("span_spacing_differs")
    if dA["chord_blend"] != dB["chord_blend"]:
        out.label("chord_spacing_differs")
    wmin = min(float(np.min(r["g"]["widths"]) / np.sum(r["g"]["widths"])) for r in res)
    if dA.get("cluster", 1.0) != 1.0 or dB.get("cluster", 1.0) != 1.0:
        out.label("span_clustered")
    out.label("narrowest_strip<1e-3_span" if wmin < 1e-3 else "narrowest_strip>=1e-3_span")
    out.label("CDw>0" if A["CDw"] > 0 else "CDw=0")
    differs = (dA["nx"], dA["nyh"], dA["span_blend"], dA["chord_blend"], dA.get("cluster", 1.0)) != (
        dB["nx"], dB["nyh"], dB["span_blend"], dB["chord_blend"], dB.get("cluster", 1.0))
    out.nontrivial = bool(differs and A["CDv"] > 0.0)
    return out


# ----------------------------------------------------------------------------------------------------------------
# switches at group level


def verdict_switches(desc):
    from openaerostruct.aerodynamics.total_drag import TotalDrag

    out = Outcome()
    md = desc["mesh"]
    mesh = build_mesh(md)
    sym = symmetry_of(md)
    fl = dict(desc["flow"])
    fl["Mach"] = desc["Mach"]
    k = float(desc["k_lam"])
    cmin = float(np.min(np.linalg.norm(mesh[-1] - mesh[0], axis=1)))
    fl["re"] = max(fl["re"], 2.0e3 / (cmin * (k if k > 0 else 1.0)))
    kind = desc["flag"]

    CL0 = float(desc.get("CL0", 0.0))
    geo = {}

    def run(v, w):
        s = aero_surface("wing", mesh, sym, with_viscous=flag(kind, v), with_wave=flag(kind, w), CD0=desc["CD0"], k_lam=k, CL0=CL0)
        prob = aero_direct([s], fl, t_over_c=[desc["toc"]])
        prob.run_model()
        for q in ("widths", "lengths_spanwise", "chords"):
            geo[q] = np.array(prob.get_val("aero_point_0.wing." + q)).copy()
        return {q: float(prob.get_val("aero_point_0.wing_perf." + q)[0]) for q in ("CD", "CDi", "CDv", "CDw", "CL")}

    v, w = desc["with_viscous"], desc["with_wave"]
    r = run(v, w)
    full = run(True, True)
    out.close("switches/CD=CDi+CDv+CDw+CD0", [r["CD"]], [r["CDi"] + r["CDv"] + r["CDw"] + desc["CD0"]], rtol=4e-16,
              scale=abs(r["CDi"]) + abs(r["CDv"]) + abs(r["CDw"]) + desc["CD0"] + 1e-300)
    if not v:
        out.true("switches/viscous_off_is_exactly_zero", r["CDv"] == 0.0, "CDv = %r with with_viscous=%r" % (r["CDv"], flag(kind, v)))
    else:
        out.true("switches/viscous_on_positive", r["CDv"] > 0.0, "CDv = %r with with_viscous=%r" % (r["CDv"], flag(kind, v)))
        out.true("switches/CDv_independent_of_wave_switch", r["CDv"] == full["CDv"], "%r vs %r" % (r["CDv"], full["CDv"]))
    if not w:
        out.true("switches/wave_off_is_exactly_zero", r["CDw"] == 0.0, "CDw = %r with with_wave=%r" % (r["CDw"], flag(kind, w)))
    else:
        out.true("switches/CDw_independent_of_viscous_switch", r["CDw"] == full["CDw"], "%r vs %r" % (r["CDw"], full["CDw"]))
    # the wave drag reported by the group is the Korn estimate for the lift coefficient the group REPORTS (CL0 included):
    # the component alone, fed with the group's geometry and that CL, must reproduce it
    from openaerostruct.aerodynamics.wave_drag import WaveDrag

    pw = one_comp(WaveDrag(surface=aero_surface("wing", mesh, sym, with_wave=True)), t_over_c=desc["toc"] * np.ones(mesh.shape[1] - 1), **geo)
    cw_alone = evaluate(pw, "CDw", Mach_number=fl["Mach"], CL=full["CL"])
    out.close("switches/CDw_is_korn_for_reported_CL", [full["CDw"]], [cw_alone], rtol=1e-12, atol=1e-15)
    if CL0 != 0.0:
        out.label("CL0!=0")
    out.true("switches/CDi_independent_of_switches", r["CDi"] == full["CDi"] and r["CL"] == full["CL"],
             "CDi %r vs %r" % (r["CDi"], full["CDi"]))
    out.true("switches/all_on_viscous_positive", full["CDv"] > 0.0, "CDv = %r with everything on (flag type %s)" % (full["CDv"], kind))
    # the summation component alone
    ci, cv, cw = desc["comp"][0], abs(desc["comp"][1]), abs(desc["comp"][2])
    p = one_comp(TotalDrag(surface=aero_surface("wing", mesh, sym, CD0=desc["CD0"])), CDi=ci, CDv=cv, CDw=cw)
    out.close("total_drag/sum", [evaluate(p, "CD")], [ci + cv + cw + desc["CD0"]], rtol=4e-16, scale=abs(ci) + cv + cw + desc["CD0"] + 1e-300)
    out.label("viscous=%s" % ("on" if v else "off"), "wave=%s" % ("on" if w else "off"), "flag=" + kind, "kind=" + md["kind"])
    out.label("CDw>0" if full["CDw"] > 0.0 else "CDw=0_when_on")
    out.nontrivial = bool(full["CDv"] > 0.0)
    return out


SUBS = [
    Sub("viscous_relations", viscous_config(), verdict_viscous, quick=1600, thorough=40000),
    Sub("wave_relations", wave_config(), verdict_wave, quick=1280, thorough=32000),
    Sub("mesh_independence", independence_config(), verdict_independence, quick=640, thorough=16000),
    Sub("switches_group", switches_config(), verdict_switches, quick=240, thorough=6000),
]
