"""Independent re-statement of the documented effect of every geometry design variable (C13) and small mesh
predicates shared by C13/C14.  Nothing here imports OpenAeroStruct.

Conventions (documented in docs/user_reference/mesh_surface_dict.rst and docs/advanced_features/geometry_manipulation.rst):
  mesh[i, j, :]  i chordwise (0 = leading edge), j spanwise (y increasing); symmetric surfaces are the LEFT half
  (root = last column), full-span surfaces have an odd number of columns and their root in the middle column.
  reference axis = (1-p)*LE + p*TE with p = ref_axis_pos (0 = leading edge, 1 = trailing edge).
"""
import numpy as np


def root_index(ny, symmetry):
    return ny - 1 if symmetry else (ny - 1) // 2


def ref_axis(m, p):
    return (1.0 - p) * m[0] + p * m[-1]


def eta_from_root(y, r):
    """|y - y_root| normalised by the distance root -> tip of the side the station is on (0 at root, 1 at each tip)"""
    y = np.asarray(y, float)
    d = np.abs(y - y[r])
    eta = np.zeros_like(d)
    if r > 0:
        eta[: r + 1] = d[: r + 1] / d[0]
    if r < len(y) - 1:
        eta[r:] = d[r:] / d[-1]
    eta[r] = 0.0
    return eta


def taper(m, lam, symmetry, p):
    """chord vectors scaled about the reference axis by 1 at the root ... lam at the tip, linearly in spanwise distance"""
    R = ref_axis(m, p)
    f = 1.0 + (lam - 1.0) * eta_from_root(R[:, 1], root_index(m.shape[1], symmetry))
    return R[None] + (m - R[None]) * f[None, :, None]


def scale_chord(m, c, p):
    R = ref_axis(m, p)
    return R[None] + (m - R[None]) * np.asarray(c, float)[None, :, None]


def sweep(m, deg, symmetry):
    """shearing sweep: x displaced by tan(angle) * spanwise distance from the root, positive aft"""
    r = root_index(m.shape[1], symmetry)
    y = m[0, :, 1]
    out = m.copy()
    out[:, :, 0] += (np.tan(np.radians(deg)) * np.abs(y - y[r]))[None, :]
    return out


def dihedral(m, deg, symmetry):
    r = root_index(m.shape[1], symmetry)
    y = m[0, :, 1]
    out = m.copy()
    out[:, :, 2] += (np.tan(np.radians(deg)) * np.abs(y - y[r]))[None, :]
    return out


def shear(m, dist, axis):
    out = m.copy()
    out[:, :, axis] += np.asarray(dist, float)[None, :]
    return out


def stretch(m, span, symmetry, p):
    """spanwise positions of the reference axis scaled about the root so that the tip-to-tip extent becomes `span`
    (a symmetric half model carries span/2); every chordwise line keeps a single y (streamwise sections)"""
    R = ref_axis(m, p)
    r = root_index(m.shape[1], symmetry)
    prev = R[-1, 1] - R[0, 1]
    target = span / 2.0 if symmetry else span
    k = target / prev
    out = m.copy()
    out[:, :, 1] = (R[r, 1] + (R[:, 1] - R[r, 1]) * k)[None, :]
    return out


def dihedral_angles(R, r):
    """local dihedral angle seen by each station = slope of its inboard reference-axis segment; 0 at the root"""
    ny = R.shape[0]
    th = np.zeros(ny)
    for j in range(ny):
        if j == r:
            continue
        k = j + 1 if j < r else j - 1
        th[j] = np.arctan((R[j, 2] - R[k, 2]) / (R[j, 1] - R[k, 1]))
    return th


def rotate(m, twist_deg, symmetry, p):
    """every section turns by its twist angle about the local spanwise direction (0, cos g, sin g) through its
    reference-axis point (g = local dihedral angle); right-handed about +y, i.e. positive twist = leading edge up.
    Rodrigues' formula."""
    R = ref_axis(m, p)
    r = root_index(m.shape[1], symmetry)
    g = dihedral_angles(R, r)
    t = np.radians(np.asarray(twist_deg, float))
    out = np.empty_like(m)
    for j in range(m.shape[1]):
        a = np.array([0.0, np.cos(g[j]), np.sin(g[j])])
        c, s = np.cos(t[j]), np.sin(t[j])
        for i in range(m.shape[0]):
            v = m[i, j] - R[j]
            out[i, j] = R[j] + v * c + np.cross(a, v) * s + a * np.dot(a, v) * (1.0 - c)
    return out


def rotate_premultiplied(m, twist_deg, symmetry, p):
    """the form Rx(g) . Ry(twist) (x-rotation applied to the chord vector itself, not a change of axis): signature of
    finding KF-C13-rotate.  Coincides with rotate() when g = 0 or when the chord vectors are parallel to x."""
    R = ref_axis(m, p)
    r = root_index(m.shape[1], symmetry)
    g = dihedral_angles(R, r)
    t = np.radians(np.asarray(twist_deg, float))
    out = np.empty_like(m)
    for j in range(m.shape[1]):
        cx, sx, cy, sy = np.cos(g[j]), np.sin(g[j]), np.cos(t[j]), np.sin(t[j])
        Rx = np.array([[1, 0, 0], [0, cx, -sx], [0, sx, cx]])
        Ry = np.array([[cy, 0, sy], [0, 1, 0], [-sy, 0, cy]])
        M = Rx @ Ry
        for i in range(m.shape[0]):
            out[i, j] = R[j] + M @ (m[i, j] - R[j])
    return out


def rotate_class(m, symmetry, p, eps=1e-12):
    """-> (has_slope, has_offaxis, in_class): whether some non-root station has a reference-axis z-slope, whether some
    station has chord vectors with a y/z component, and whether one station has both (class of KF-C13-rotate)"""
    R = ref_axis(m, p)
    r = root_index(m.shape[1], symmetry)
    g = dihedral_angles(R, r)
    v = m - R[None]
    c = np.max(np.abs(v[:, :, 0]), axis=0) + 1e-300
    off = np.max(np.abs(v[:, :, 1:]), axis=(0, 2)) / c
    slope = np.abs(g) > eps
    offax = off > eps
    return bool(slope.any()), bool(offax.any()), bool(np.any(slope & offax))


def chain(m, symmetry, p, taper_=1.0, chord=None, sweep_=0.0, xshear=None, span=None, yshear=None, dihedral_=0.0,
          zshear=None, twist=None, upto=9):
    """documented order of GeometryMesh: taper > chord > sweep > x-shear > span > y-shear > dihedral > z-shear > twist.
    upto = number of steps applied (8 = everything before the twist rotation)."""
    ny = m.shape[1]
    z = np.zeros(ny)
    steps = [
        lambda a: taper(a, taper_, symmetry, p),
        lambda a: scale_chord(a, np.ones(ny) if chord is None else chord, p),
        lambda a: sweep(a, sweep_, symmetry),
        lambda a: shear(a, z if xshear is None else xshear, 0),
        lambda a: a.copy() if span is None else stretch(a, span, symmetry, p),
        lambda a: shear(a, z if yshear is None else yshear, 1),
        lambda a: dihedral(a, dihedral_, symmetry),
        lambda a: shear(a, z if zshear is None else zshear, 2),
        lambda a: rotate(a, z if twist is None else twist, symmetry, p),
    ]
    out = np.array(m, float)
    for f in steps[:upto]:
        out = f(out)
    return out


def planform_area(m):
    """sum of the shoelace areas of the x-y projections of all panels"""
    a = 0.0
    nx, ny, _ = m.shape
    for i in range(nx - 1):
        for j in range(ny - 1):
            P = [m[i, j, :2], m[i + 1, j, :2], m[i + 1, j + 1, :2], m[i, j + 1, :2]]
            s = 0.0
            for k in range(4):
                q = P[(k + 1) % 4]
                s += P[k][0] * q[1] - q[0] * P[k][1]
            a += 0.5 * abs(s)
    return a


def current_span(m, symmetry, p):
    R = ref_axis(m, p)
    e = float(np.max(R[:, 1]) - np.min(R[:, 1]))
    return 2.0 * e if symmetry else e


def distribution(d, eta):
    """expand a JSON distribution descriptor {kind: const|linear|rand, a, b, seed} on normalised stations eta"""
    eta = np.asarray(eta, float)
    if d["kind"] == "const":
        return np.full(eta.shape, float(d["a"]))
    if d["kind"] == "linear":
        return d["a"] + (d["b"] - d["a"]) * eta
    u = np.random.default_rng(int(d["seed"])).uniform(0.0, 1.0, size=eta.shape)
    return d["a"] + (d["b"] - d["a"]) * u


def mirror(m):
    r = np.array(m[:, ::-1, :], float)
    r[:, :, 1] *= -1.0
    return r
