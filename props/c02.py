"""C02  Coupled total derivatives are correct and identical in forward and reverse mode (DESIGN.md section 4, C02)."""
import numpy as np
import openmdao.api as om
from hypothesis import strategies as st

from oasv import numdiff
from oasv.core import Inconclusive, Outcome, Sub
from props import c01

RULE = (
    "Hypothesis draws a model topology (aero point behind Geometry groups with 1-2 surfaces / structure alone / "
    "aerostructural point / 2-point multipoint aerostructural with shared geometry), the option combinations of C01's "
    "configuration families (symmetry, compressible, ground effect, viscous/wave drag, weight relief, fuel, point masses, "
    "tube/wingbox, wetted/projected area), a design point, a subset of design variables / flight conditions and the functions "
    "of interest of the topology.  Oracles: (1) totals from setup(mode='fwd') vs setup(mode='rev'); (2) both vs real-valued "
    "5-point numerical differentiation of run_model (coupled solver converged to 1e-12) along one direction per chosen "
    "variable plus a joint direction; (3) totals with DirectSolver vs LinearBlockGS vs ScipyKrylov(+LinearRunOnce) attached to "
    "the coupled group; (4) LinearBlockGS in fwd and in rev mode (same spectral radius): if only one converges, the other is "
    "re-run without the convergence error and its totals must agree with the converged mode.  non-trivial = >= 1 variable upstream of the implicit/coupled solve and >= 1 function downstream; "
    "distinct = descriptor digest."
)
ASSUMPTIONS = [
    "fwd vs rev: 1e-8 of each block scale (measured 1e-13); vs numerical: rtol 1e-5 plus 20x the Richardson estimate and "
    "1e-10*|f|; inconclusive when the estimate is poor.  Exception (recorded finding KF-C02-wingbox-fd): geometry variables "
    "of a wingbox surface act through WingboxGeometry's fd-declared partials; those directions are a probe class: deviations "
    "up to 5e-2 emit the finding's key, larger ones are violations",
    "alternative linear solvers run with err_on_non_converge; a non-converged solve is inconclusive for that solver "
    "(documentation: iterative solvers are not guaranteed to converge); agreement 1e-5 of each block (the error of an "
    "iterative solve is its residual tolerance times the conditioning of the coupled Jacobian; measured up to 3e-6)",
    "wingbox meshes keep |twist| > 0 (WingboxGeometry kink, see C01); lifting flight points (Breguet undefined at CL<=0)",
]

AERO_WRT = ["alpha", "v", "rho", "Mach_number", "re", "cg"]
AS_WRT = ["alpha", "v", "rho", "Mach_number", "re", "load_factor", "W0", "R", "CT", "empty_cg"]


@st.composite
def config(draw):
    topo = draw(st.sampled_from(["aero", "aerostruct", "struct", "aerostruct", "multipoint"]))
    if topo == "aero":
        d = draw(c01.aero_cfg())
    else:
        d = draw(c01.struct_cfg("aerostruct" if topo == "multipoint" else topo))
    d["topo2"] = topo
    d["nwrt"] = draw(st.integers(2, 4))
    d["pick"] = draw(st.integers(0, 10 ** 6))
    d["alt_mode"] = draw(st.sampled_from(["fwd", "rev"]))
    return d


def build(desc, mode, lin="direct", lbgs_tol=1e-13):
    if desc["topo2"] == "multipoint":
        p = build_multipoint(desc, mode)
        npts = 2
    else:
        p = c01.build_model(desc, mode=mode)
        npts = 1
    if desc["topo"] == "aerostruct" and lin != "direct":
        for i in range(npts):
            c = getattr(p.model, "AS_point_%d" % i).coupled
            if lin == "lbgs":
                c.linear_solver = om.LinearBlockGS(maxiter=1000, atol=lbgs_tol, rtol=lbgs_tol, iprint=-1, err_on_non_converge=True)
            else:
                c.linear_solver = om.ScipyKrylov(maxiter=500, atol=1e-13, rtol=1e-11, iprint=-1, err_on_non_converge=True)
                c.linear_solver.precon = om.LinearRunOnce(iprint=-1)
    return p


def build_multipoint(desc, mode):
    """two flight points sharing the geometry (second point: pull-up)"""
    from oasv.models import aerostruct_problem

    d1 = dict(desc)
    d1["topo"] = "aerostruct"
    # reuse C01's surface construction through a throw-away single-point model description
    import props.c01 as m

    mesh = m.build_mesh(desc["mesh"])
    p1 = m.build_model(d1, mode=None)  # only to obtain the surface dictionary it built
    surf = p1.model.wing.options["surface"]
    p1.cleanup()
    fl = dict(desc["flow"])
    nm = desc["n_masses"]
    b = float(np.max(np.abs(mesh[:, :, 1])))
    if nm:
        fl.update(point_masses=[40.0, 25.0][:nm], point_mass_locations=[[0.3, -0.4 * b, 0.05], [0.6, -0.7 * b, -0.05]][:nm],
                  engine_thrusts=[300.0, 150.0][:nm])
    flows = [dict(), dict(alpha=fl["alpha"] + 1.5, load_factor=fl["load_factor"] + 0.7, v=fl["v"] * 0.9)]
    return aerostruct_problem([surf], fl, npts=2, compressible=desc["compressible"], flows=flows,
                              mode="auto" if mode is None else mode)


def names(desc, prob):
    """(of, wrt candidates) as promoted names existing in this model"""
    topo = desc["topo2"]
    if topo == "aero":
        of = ["aero_point_0.CL", "aero_point_0.CD", "aero_point_0.CM"]
        wrt = list(AERO_WRT)
        if "omega" in desc["flow"]:
            wrt.append("omega")
        if desc["ground"]:
            wrt.append("height_agl")
        for k, o in enumerate(desc["opts"]):
            pre = "s%d." % k
            right = desc["surfaces"][k]["mesh"]["kind"] == "right"
            for dv in ("twist_cp", "chord_cp", "xshear_cp", "yshear_cp", "zshear_cp"):
                if dv in o["dv"]:
                    wrt.append(pre + dv)
            for dv in ("sweep", "taper", "dihedral"):
                if dv in o["dv"] and not right:
                    wrt.append(pre + dv)
            if "span_factor" in o["dv"]:
                wrt.append(pre + "span")
            md = desc["surfaces"][k]["mesh"]
            if md["nyh"] > 2:
                # a surface with a single spanwise panel evaluates its t/c B-spline at ONE point, which OpenMDAO 3.45's
                # SplineComp cannot differentiate (ValueError inside openmdao/components/interp_util) - upstream
                wrt.append(pre + "t_over_c_cp")
            of.append("aero_point_0.s%d_perf.CD" % k)
        return of, wrt
    dvs = []
    pre = "wing." if topo != "struct" else ""
    gpre = pre if topo != "struct" else "geometry."
    for dv in ("twist_cp", "chord_cp", "xshear_cp", "yshear_cp", "zshear_cp", "sweep", "taper", "dihedral"):
        if dv in desc["dv"] or dv == "twist_cp":
            dvs.append((pre if topo != "struct" else gpre) + dv)
    if "span_factor" in desc["dv"]:
        dvs.append((pre if topo != "struct" else gpre) + "span")
    if desc["model"] == "tube":
        dvs.append(pre + "thickness_cp")
        if desc["radius_cp"]:
            dvs.append(pre + "radius_cp")
    else:
        dvs += [pre + "spar_thickness_cp", pre + "skin_thickness_cp"]
    if topo == "struct":
        of = ["failure", "structural_mass", "disp", "vonmises"]
        wrt = ["loads", "load_factor"] + dvs
        if desc["n_masses"]:
            wrt += ["point_masses", "point_mass_locations", "engine_thrusts"]
        return of, wrt
    dvs.append("wing.t_over_c_cp")
    if desc["n_masses"]:
        dvs += ["wing_point_masses", "wing_point_mass_locations", "wing_engine_thrusts"]
    if topo == "aerostruct":
        A = "AS_point_0."
        of = [A + "CL", A + "CD", A + "CM", A + "fuelburn", A + "wing_perf.failure", A + "L_equals_W", "wing.structural_mass"]
        if desc.get("tail"):
            of += [A + "tail_perf.failure", A + "tail_perf.CL"]
            dvs += ["tail.twist_cp", "tail.thickness_cp"]
        return of, AS_WRT + dvs
    of = []
    for i in range(2):
        A = "AS_point_%d." % i
        of += [A + "CL", A + "CD", A + "fuelburn", A + "wing_perf.failure", A + "L_equals_W"]
    of.append("wing.structural_mass")
    wrt = ["alpha_0", "alpha_1", "v_1", "rho_0", "Mach_number_1", "load_factor_1", "load_factor_0", "W0", "R", "CT", "empty_cg"] + dvs
    return of, wrt


def resolve(prob, wrt):
    """promoted names differ between the groups (wing.span vs wing.geometry.span ...): pick the variant that exists"""
    have = set()
    for _, meta in prob.model.list_inputs(out_stream=None, prom_name=True, val=False):
        have.add(meta["prom_name"])
    for _, meta in prob.model.list_outputs(out_stream=None, prom_name=True, val=False):
        have.add(meta["prom_name"])
    out = []
    for w in wrt:
        head, _, tail = w.rpartition(".")
        cands = [w] + ([head + ".geometry." + tail, head + ".geometry.mesh." + tail] if head else ["geometry." + tail])
        for c in cands:
            if c in have:
                out.append(c)
                break
    return out


def _dense(J):
    return {k: (v.toarray() if hasattr(v, "toarray") else np.asarray(v, float)) for k, v in J.items()}


def _mag(prob, name):
    return float(np.max(np.abs(prob.get_val(name))))


def verdict(desc):
    out = Outcome()
    topo = desc["topo2"]
    from oasv.models import run_coupled

    coupled = desc["topo"] == "aerostruct"
    pf = build(desc, "fwd")
    run_coupled(pf) if coupled else pf.run_model()
    of, wrt_all = names(desc, pf)
    wrt_all = resolve(pf, wrt_all)
    if topo in ("aerostruct", "multipoint"):
        cls = [float(pf.get_val("AS_point_%d.CL" % i)[0]) for i in range(2 if topo == "multipoint" else 1)]
        if min(cls) < 1e-3:
            raise Inconclusive("non-lifting flight point")
    rng = np.random.default_rng(desc["pick"])
    idx = rng.permutation(len(wrt_all))[: desc["nwrt"]]
    wrt = [wrt_all[i] for i in sorted(idx)]
    Jf = _dense(pf.compute_totals(of=of, wrt=wrt))
    pr = build(desc, "rev")
    run_coupled(pr) if coupled else pr.run_model()
    Jr = _dense(pr.compute_totals(of=of, wrt=wrt))
    # natural magnitude of each function: its own, but never below 1e-3 (the functions are O(1) coefficients and ratios or
    # large dimensional quantities; a coefficient that happens to vanish - zero-lift point - keeps its O(1) scale)
    fm = {o: max(_mag(pf, o), 1e-3) for o in of}
    xm = {w: max(_mag(pf, w), 1.0) for w in wrt}
    # (1) fwd vs rev
    for k in Jf:
        sc = max(float(np.max(np.abs(Jf[k]))), float(np.max(np.abs(Jr[k]))))
        out.close("fwd_vs_rev/d_%s" % k[0].split(".")[-1], Jr[k], Jf[k], rtol=1e-8, atol=1e-10 * max(fm[k[0]], 1e-9) / xm[k[1]],
                  scale=sc, msg="wrt %s" % k[1])
    # (2) numerical differentiation of the converged analysis
    wingbox = desc.get("model") == "wingbox"
    GEOM = ("twist_cp", "chord_cp", "xshear_cp", "yshear_cp", "zshear_cp", "sweep", "taper", "dihedral", "span")
    rtol = 1e-5
    x0 = {w: np.array(pf.get_val(w), float).copy() for w in wrt}
    sizes = {o: int(np.size(pf.get_val(o))) for o in of}

    def evaluate(dirs):
        def f(t):
            for w in wrt:
                pf.set_val(w, x0[w] + (t * dirs[w] if w in dirs else 0.0))
            pf.run_model()
            return np.concatenate([np.ravel(pf.get_val(o)) for o in of])

        return f

    from oasv.insitu import direction

    groups = [{w: direction(x0[w], rng)} for w in wrt]
    groups.append({w: direction(x0[w], rng) for w in wrt})
    for dirs in groups:
        try:
            D, err, info = numdiff.dir_derivative(evaluate(dirs), ladder=(1e-3, 1e-4, 1e-2, 1e-5), good=1e-9)
        except om.AnalysisError:
            D = None
        if D is None:
            out.note_inconclusive("no evaluable FD rung for %s" % sorted(dirs))
            continue
        label = sorted(dirs)[0].split(".")[-1] if len(dirs) == 1 else "joint"
        off = 0
        for o in of:
            sl = slice(off, off + sizes[o])
            off += sizes[o]
            # wingbox surfaces: a geometry variable of the WING reaches the functions through WingboxGeometry, whose partials
            # the code itself declares as forward finite differences (recorded finding KF-C02-wingbox-fd): judged in a
            # separate outcome; a deviation <= 5e-2 of the block emits the finding's key, anything larger is a violation
            fd_chain = wingbox and any(w.split(".")[-1] in GEOM and not w.startswith("tail.") for w in dirs)
            for tag, J in (("fwd", Jf), ("rev", Jr)):
                jd = np.zeros(sizes[o])
                for w, d in dirs.items():
                    jd = jd + np.asarray(J[o, w]).reshape(sizes[o], -1) @ np.ravel(d)
                key = "numerical_%s/d_%s/%s" % (tag, o.split(".")[-1], label)
                if not fd_chain:
                    numdiff.judge(out, key, jd, D[sl], err[sl], rtol, msg="[%s wrt %s]" % (o, label), fmag=fm[o])
                    continue
                o2 = Outcome()
                numdiff.judge(o2, key, jd, D[sl], err[sl], rtol, atol=1e-6 * fm[o], msg="[%s wrt %s]" % (o, label), fmag=fm[o])
                out.label("wingbox-fd-chain")
                if o2.fails:
                    o3 = Outcome()
                    numdiff.judge(o3, key, jd, D[sl], err[sl], 5e-2, atol=1e-5 * fm[o], msg="[%s wrt %s]" % (o, label), fmag=fm[o])
                    if o3.fails:
                        out.fails.extend(o3.fails)
                    else:
                        out.fail("KF-C02-wingbox-fd:totals_through_fd_declared_partials", o2.fails[0]["msg"])
                out.inconclusive.extend(o2.inconclusive)
    for w in wrt:
        pf.set_val(w, x0[w])
    # (3) alternative linear solvers on the coupled group
    if desc["topo"] == "aerostruct":
        for lin in ("lbgs", "krylov"):
            # GMRES reports failure on identically zero right-hand sides (functions / variables that do not reach the
            # coupled group): it is run in reverse mode on the functions downstream of the coupled solve
            amode = "rev" if lin == "krylov" else desc["alt_mode"]
            aof = [o for o in of if not o.endswith("structural_mass")] if lin == "krylov" else of
            pa = build(desc, amode, lin=lin)
            try:
                pa.run_model()
                Ja = _dense(pa.compute_totals(of=aof, wrt=wrt))
            except (om.AnalysisError, ValueError) as e:
                if isinstance(e, ValueError) and "infs or NaNs" not in str(e):
                    raise
                out.note_inconclusive("%s/%s did not converge: %s" % (lin, amode, str(e)[:160]))
                out.label("solver-inconclusive:%s/%s" % (lin, amode))
                pa.cleanup()
                continue
            ref = Jf if amode == "fwd" else Jr
            for k in Ja:
                sc = max(float(np.max(np.abs(ref[k]))), 1e-300)
                out.close("solver_%s/d_%s" % (lin, k[0].split(".")[-1]), Ja[k], ref[k], rtol=1e-5,
                          atol=1e-7 * max(fm[k[0]], 1e-9) / xm[k[1]], scale=sc, msg="wrt %s (%s)" % (k[1], amode))
            out.label("solver-conclusive:%s/%s" % (lin, amode))
            pa.cleanup()
    # (4) block Gauss-Seidel converges in reverse mode iff it converges in forward mode: the reverse sweep on the transposed
    # system has the iteration matrix [U (D+L)^-1]^T, whose spectrum is that of the forward one (D+L)^-1 U.  A one-sided
    # failure (at a moderate tolerance both modes reach on a correct tree) means the reverse operators are not the transposes.
    if topo == "aerostruct":
        conv = {}
        for m_ in ("fwd", "rev"):
            pa = build(desc, m_, lin="lbgs", lbgs_tol=1e-9)
            try:
                pa.run_model()
                Ja = _dense(pa.compute_totals(of=of, wrt=wrt))
                conv[m_] = Ja
            except (om.AnalysisError, ValueError) as e:
                if isinstance(e, ValueError) and "infs or NaNs" not in str(e):
                    raise
                conv[m_] = None
            pa.cleanup()
        state = "".join("1" if conv[m_] is not None else "0" for m_ in ("fwd", "rev"))
        out.label("lbgs-fwd/rev-converged=" + state)
        if state in ("10", "01"):
            # "Did not converge" is not yet "diverged": the stiffness entries are ~1e9, so the residual of one mode may stall
            # at its round-off floor above the requested 1e-9 while the answer is long converged (observed: rev done in 4
            # iterations, fwd stalled for 1000).  The failing mode is therefore re-run without the convergence error and
            # its totals are compared with those of the converging mode: a stalled-but-converged solve agrees, a reverse
            # operator that is not the transpose of the forward one does not.
            good, bad = ("fwd", "rev") if state == "10" else ("rev", "fwd")
            pa = build(desc, bad, lin="lbgs", lbgs_tol=1e-9)
            npts = 2 if desc["topo2"] == "multipoint" else 1
            for i in range(npts):
                ls = getattr(pa.model, "AS_point_%d" % i).coupled.linear_solver
                ls.options["err_on_non_converge"] = False
            Jb = None
            try:
                pa.run_model()
                Jb = _dense(pa.compute_totals(of=of, wrt=wrt))
            except ValueError as e:
                if "infs or NaNs" not in str(e):
                    raise
            pa.cleanup()
            if Jb is None or not all(np.all(np.isfinite(v)) for v in Jb.values()):
                out.fail("solver_lbgs/converges_in_one_mode_only",
                         "LinearBlockGS(atol=rtol=1e-9, maxiter=1000) converges in %s mode and blows up in %s mode" % (good, bad))
            else:
                for k in conv[good]:
                    sc = max(float(np.max(np.abs(conv[good][k]))), fm[k[0]] / xm[k[1]] * 1e-6, 1e-300)
                    # (a residual stalled at its floor leaves an error of floor x conditioning: observed 6e-5 of a block)
                    out.close("solver_lbgs/one_mode_stalled/d_%s" % k[0].split(".")[-1], Jb[k], conv[good][k], rtol=1e-3,
                              atol=1e-5 * max(fm[k[0]], 1e-9) / xm[k[1]], scale=sc, msg="wrt %s (%s stalled)" % (k[1], bad))
                out.label("lbgs-one-mode-stalled-at-roundoff")
    out.label("topo=" + topo)
    for w in wrt:
        out.label("wrt=" + w.split(".")[-1].rstrip("_01"))
    if desc["topo"] != "aero":
        out.label("model=" + desc["model"])
        out.label("symmetric" if desc["mesh"]["kind"] == "left" else "fullspan")
        for k in ("weight_relief", "fuel", "viscous", "wave", "compressible", "tail"):
            if desc.get(k):
                out.label(k)
    else:
        for k in ("compressible", "ground"):
            if desc[k]:
                out.label(k)
    out.nontrivial = True
    pf.cleanup()
    pr.cleanup()
    return out


SUBS = [Sub("totals", config(), verdict, quick=160, thorough=1600)]
