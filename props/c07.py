"""C07  Mirror-image configurations give mirror-image results (DESIGN.md section 4, C07)."""
import numpy as np
from hypothesis import strategies as st

from oasv import strategies as S
from oasv.core import Outcome, Sub
from oasv.layouts import place_surfaces
from oasv.meshes import build_mesh, full_from_half, mirror_mesh
from oasv.models import aero_direct, aero_geom_problem, aero_surface, aerostruct_problem, struct_surface

RULE = (
    "(a) aero_mirror: Hypothesis draws 1-3 full-span (symmetry off) surfaces with asymmetric geometry ('asym' and 'full' "
    "families, placed behind/beside each other), alpha, beta, rotation rates, cg with y offset, viscous on/off; the mirror "
    "image (meshes with reversed spanwise order and negated y, -beta, (-p,q,-r), -cg_y) must give reflected panel forces, "
    "reflected moment vector and equal scalars.  (b) as_symmetry: mirror-symmetric full-span aerostructural models (tube, "
    "wingbox; mirrored point masses/thrusts, weight relief, fuel) must have mirror-symmetric disp, loads, def_mesh, "
    "sec_forces and von Mises stresses.  (c) left_right_geometry: the same wing as left-half and right-half symmetric model "
    "through the Geometry group with drawn design variables (control points reversed for the right half) must give mirrored "
    "meshes and equal CL, CD, CM.  (d) full_span_geometry_mirror: an asymmetric full-span wing (unequal half spans) through "
    "the Geometry group with drawn design variables and sideslip against its mirror image.  non-trivial = lifting; (a) beta or rates or asymmetry non-zero; distinct by digest."
)
ASSUMPTIONS = [
    "tolerance 1e-9 relative (aero), 1e-7 (aerostructural: coupled solver atol 1e-12)",
    "(c) main search uses twist, chord, x/y/z shear and span in combinations where no transformation depends on which end is "
    "the root (twist only with a planar reference axis); sweep, dihedral, taper on right halves (KF-C07-rightDV) and twisted "
    "chords with a reference-axis z-slope through Rotate (KF-C07-rightRotate) are recorded findings run as probes; y shear "
    "values are negated for the mirrored wing",
    "(b) wingbox von Mises stresses are the recorded finding KF-C07-wingbox (probe); displacements/loads stay in the main search",
]

R = np.array([1.0, -1.0, 1.0])


# ------------------------------------------------------------------------------------------------------------------ (a)
@st.composite
def aero_cfg(draw):
    surfaces = draw(S.aero_config(max_surf=3, kinds=("asym", "full", "asym"), nx=(2, 4), nyh=(2, 4), max_panels=36))
    fl = draw(S.flow(beta=True, rot=True))
    return dict(surfaces=surfaces, flow=fl, viscous=draw(st.booleans()), compressible=draw(st.booleans()))


def aero_verdict(desc):
    out = Outcome()
    fl = dict(desc["flow"])
    comp = desc["compressible"] and "omega" not in fl
    meshes = place_surfaces(desc["surfaces"], fl["alpha"])
    ns = len(meshes)
    kw = dict(with_viscous=desc["viscous"])
    p1 = aero_direct([aero_surface("s%d" % k, m, False, **kw) for k, m in enumerate(meshes)], fl, compressible=comp)
    p1.run_model()
    fm = dict(fl, beta=-fl.get("beta", 0.0))
    if "omega" in fl:
        w = fl["omega"]
        fm["omega"] = [-w[0], w[1], -w[2]]
    c = fl.get("cg", [0.0, 0.0, 0.0])
    fm["cg"] = [c[0], -c[1], c[2]]
    p2 = aero_direct([aero_surface("s%d" % k, mirror_mesh(m), False, **kw) for k, m in enumerate(meshes)], fm, compressible=comp)
    p2.run_model()
    P = "aero_point_0."
    F1 = [p1.get_val(P + "aero_states.s%d_sec_forces" % k) for k in range(ns)]
    fs = max(float(np.max(np.abs(f))) for f in F1)
    for k in range(ns):
        F2 = p2.get_val(P + "aero_states.s%d_sec_forces" % k)
        out.close("aero/sec_forces", F2[:, ::-1, :] * R, F1[k], rtol=1e-9, scale=fs)
        for cname in ("CL", "CD", "CDi", "CDv"):
            out.close("aero/" + cname, p2.get_val(P + "s%d_perf.%s" % (k, cname)), p1.get_val(P + "s%d_perf.%s" % (k, cname)),
                      rtol=1e-9, atol=1e-13)
    for cname in ("CL", "CD"):
        out.close("aero/total_" + cname, p2.get_val(P + cname), p1.get_val(P + cname), rtol=1e-9, atol=1e-13)
    M1, M2 = p1.get_val(P + "total_perf.moment.M"), p2.get_val(P + "total_perf.moment.M")
    out.close("aero/M", M2 * np.array([-1.0, 1.0, -1.0]), M1, rtol=1e-9, atol=1e-9 * fs)
    C1, C2 = p1.get_val(P + "CM"), p2.get_val(P + "CM")
    out.close("aero/CM", C2 * np.array([-1.0, 1.0, -1.0]), C1, rtol=1e-9, atol=1e-12)
    # the SAME live problem re-analysed in the mirror-image configuration (mesh, sideslip, rates, reference point set to
    # their mirror images) must give the mirror image as well: the mirrored AIC matrix is a permutation of the original
    # one (same norm, same spectrum), which is exactly what a change detector keyed on a scalar summary cannot see
    from oasv.models import set_flow

    for k, m in enumerate(meshes):
        p1.set_val("s%d_mesh" % k, mirror_mesh(m), units="m")
    set_flow(p1, fm)
    p1.run_model()
    for k in range(ns):
        F2 = p2.get_val(P + "aero_states.s%d_sec_forces" % k)
        out.close("aero/reused_problem/sec_forces", p1.get_val(P + "aero_states.s%d_sec_forces" % k), F2, rtol=1e-9, scale=fs)
    out.close("aero/reused_problem/CM", p1.get_val(P + "CM"), C2, rtol=1e-9, atol=1e-12)
    out.label("nsurf=%d" % ns)
    if fl.get("beta", 0.0) != 0:
        out.label("sideslip")
    if "omega" in fl:
        out.label("rotation")
    if any(s["mesh"]["kind"] == "asym" for s in desc["surfaces"]):
        out.label("asymmetric-geometry")
    if comp:
        out.label("compressible")
    if desc["viscous"]:
        out.label("viscous")
    S_ref = sum(p1.get_val(P + "s%d.S_ref" % k)[0] for k in range(ns))
    Ftot = np.abs(sum(f.sum(axis=(0, 1)) for f in F1)).max()
    asym = fl.get("beta", 0.0) != 0 or "omega" in fl or any(s["mesh"]["kind"] == "asym" for s in desc["surfaces"])
    out.nontrivial = bool(Ftot > 1e-9 * 0.5 * fl["rho"] * fl["v"] ** 2 * S_ref and asym)
    return out


# ------------------------------------------------------------------------------------------------------------------ (b)
from props.c04 import _as_surface, as_cfg  # noqa: E402  (same aerostructural configuration family)


def as_verdict(desc):
    out = Outcome()
    half = build_mesh(desc["mesh"])
    full = full_from_half(half)
    ny = half.shape[1]
    b = float(np.max(np.abs(half[:, :, 1])))
    nm = desc["n_masses"]
    fl = dict(alpha=desc["alpha"], v=desc["v"], rho=desc["rho"], Mach=desc["Mach"], load_factor=desc["load_factor"])
    if nm:
        locs = []
        for i in range(nm):
            fx, fy, fz = desc["mass_loc"][i]
            locs.append([float(half[0, -1, 0]) + fx, -fy * b, float(half[0, -1, 2]) + fz])
        mir = [[x, -y, z] for x, y, z in locs]
        fl.update(point_masses=desc["masses"][:nm] * 2, point_mass_locations=locs + mir, engine_thrusts=desc["thrust"][:nm] * 2)
    sf = _as_surface(desc, full, False, 2 * nm)
    from oasv.models import run_coupled

    pf = aerostruct_problem([sf], fl, compressible=desc["compressible"])
    run_coupled(pf)
    A = "AS_point_0."
    if float(pf.get_val(A + "CL")[0]) < 1e-3:
        from oasv.core import Discard

        raise Discard("non-lifting aerostructural point (Breguet fuel burn, cg, CM undefined at CL <= 0)")
    rt = 1e-7
    d = pf.get_val(A + "coupled.wing.disp")
    dm = d[::-1] * np.array([1.0, -1.0, 1.0, -1.0, 1.0, -1.0])
    out.close("as/disp_translations", dm[:, :3], d[:, :3], rtol=rt)
    out.close("as/disp_rotations", dm[:, 3:], d[:, 3:], rtol=rt, atol=rt * float(np.max(np.abs(d[:, :3]))) / b)
    lo = pf.get_val(A + "coupled.wing_loads.loads")
    lm = lo[::-1] * np.array([1.0, -1.0, 1.0, -1.0, 1.0, -1.0])
    out.close("as/loads_forces", lm[:, :3], lo[:, :3], rtol=rt)
    out.close("as/loads_moments", lm[:, 3:], lo[:, 3:], rtol=rt, atol=rt * float(np.max(np.abs(lo[:, :3]))) * b)
    dmesh = pf.get_val(A + "coupled.wing.def_mesh")
    out.close("as/def_mesh", dmesh[:, ::-1, :] * R, dmesh, rtol=rt)
    F = pf.get_val(A + "coupled.aero_states.wing_sec_forces")
    out.close("as/sec_forces", F[:, ::-1, :] * R, F, rtol=rt)
    tl = pf.get_val(A + "coupled.wing.struct_states.total_loads.total_loads") if (
        desc["weight_relief"] or desc["fuel"] or nm) else None
    if tl is not None:
        tm = tl[::-1] * np.array([1.0, -1.0, 1.0, -1.0, 1.0, -1.0])
        out.close("as/total_loads_forces", tm[:, :3], tl[:, :3], rtol=rt)
        out.close("as/total_loads_moments", tm[:, 3:], tl[:, 3:], rtol=rt, atol=rt * float(np.max(np.abs(tl[:, :3]))) * b)
    vm = pf.get_val(A + "wing_perf.vonmises")
    sc = float(np.max(np.abs(vm)))
    err = float(np.max(np.abs(vm[::-1] - vm)))
    if desc["model"] == "tube":
        out.close("as/vonmises_tube", vm[::-1], vm, rtol=rt)
    else:
        if err <= rt * sc:
            pass
        else:
            disp_sym = not any(f["key"].startswith("as/disp") for f in out.fails)
            if disp_sym:
                out.fail("KF-C07-wingbox:vonmises_asymmetric_with_symmetric_disp",
                         "wingbox von Mises asymmetry %.3e relative while displacements are mirror-symmetric" % (err / sc))
            else:
                out.fail("as/vonmises_wingbox", "asymmetry %.3e relative" % (err / sc))
    cm = pf.get_val(A + "CM")
    out.le("as/CM_roll_yaw_zero", max(abs(cm[0]), abs(cm[2])), 1e-7 * max(abs(cm[1]), 1e-3))
    out.label("model=" + desc["model"])
    for k in ("weight_relief", "fuel", "viscous", "compressible"):
        if desc[k]:
            out.label(k)
    out.label("masses=%d" % nm)
    out.nontrivial = bool(abs(float(pf.get_val(A + "CL")[0])) > 1e-6)
    return out


# ------------------------------------------------------------------------------------------------------------------ (c)
@st.composite
def lr_cfg(draw, mode="main"):
    """mode main: combinations for which every transformation is independent of the root index;
    probe_dv: sweep/dihedral/taper on the right half (KF-C07-rightDV);
    probe_rotate: twisted/cambered chords together with a reference-axis z-slope (KF-C07-rightRotate)."""
    md = draw(S.mesh(kinds=("left",), nx=(2, 3), nyh=(3, 5), noise=False, winglet=False, root_offsets=True))
    ncp = draw(st.integers(1, 4))
    dvs = ["twist", "chord", "xshear", "yshear", "zshear", "span"]
    twisty = draw(st.booleans())
    if mode == "probe_rotate":
        # chords with z components (built-in twist) AND a z-slope of the reference axis (dihedral), twist DV in the chain
        md["side"]["twist"] = draw(S.fl(2.0, 8.0, 4.0))
        md["side"]["dihedral"] = draw(S.fl(3.0, 15.0, 6.0))
        use = ["twist"]
    elif mode == "probe_dv":
        md["root_twist"] = md["side"]["twist"] = md["side"]["camber"] = 0.0
        use = draw(st.lists(st.sampled_from(["sweep", "dihedral", "taper"]), min_size=1, max_size=3, unique=True))
    else:
        if twisty:
            # Rotate's dihedral-following x-rotation must vanish: planar reference axis
            md["side"]["dihedral"] = 0.0
            dvs.remove("zshear")
            if md["root_twist"] != 0.0 or md["side"]["twist"] != 0.0 or md["side"]["camber"] != 0.0:
                # a pre-twisted tapered wing has a z-slope of the reference axis unless the axis is the leading edge
                ref0 = True
            else:
                ref0 = False
        else:
            md["root_twist"] = md["side"]["twist"] = md["side"]["camber"] = 0.0
            dvs.remove("twist")
            ref0 = False
        use = draw(st.lists(st.sampled_from(dvs), min_size=1, max_size=4, unique=True))
    d = dict(
        mesh=md,
        ncp=ncp,
        twist_cp=[draw(S.fl(-6.0, 6.0, 0.0)) for _ in range(ncp)],
        chord_cp=[draw(S.fl(0.5, 2.0, 1.0)) for _ in range(ncp)],
        xshear_cp=[draw(S.fl(-0.5, 0.5, 0.0)) for _ in range(ncp)],
        yshear_cp=[draw(S.fl(-0.2, 0.2, 0.0)) for _ in range(ncp)],
        zshear_cp=[draw(S.fl(-0.5, 0.5, 0.0)) for _ in range(ncp)],
        span_factor=draw(S.fl(0.5, 2.0, 1.0)),
        ref_axis_pos=draw(st.sampled_from([0.25, 0.0, 0.6, 1.0])),
        use=use,
        alpha=draw(S.fl(-5.0, 10.0, 4.0)),
        sweep=draw(S.fl(-20.0, 30.0, 10.0)),
        dihedral=draw(S.fl(-10.0, 15.0, 5.0)),
        taper=draw(S.fl(0.3, 1.5, 0.6)),
        mode=mode,
    )
    if mode == "main" and twisty and ref0:
        d["ref_axis_pos"] = 0.0
    return d


def _lr_surface(desc, mesh, right):
    kw = dict(ref_axis_pos=desc["ref_axis_pos"])
    rev = (lambda a: a[::-1]) if right else (lambda a: a)
    for name in ("twist", "chord", "xshear", "zshear"):
        if name in desc["use"]:
            kw[name + "_cp"] = np.array(rev(desc[name + "_cp"]), float)
    if "yshear" in desc["use"]:
        kw["yshear_cp"] = np.array(rev(desc["yshear_cp"]), float) * (-1.0 if right else 1.0)
    if "span" in desc["use"]:
        kw["span"] = 2.0 * float(np.max(np.abs(mesh[:, :, 1]))) * desc["span_factor"]
    for name in ("sweep", "dihedral", "taper"):
        if name in desc["use"]:
            kw[name] = desc[name]
    return aero_surface("wing", mesh, True, **kw)


def lr_verdict(desc):
    out = Outcome()
    left = build_mesh(desc["mesh"])
    right = mirror_mesh(left)
    fl = dict(alpha=desc["alpha"])
    pl = aero_geom_problem([_lr_surface(desc, left, False)], fl)
    pl.run_model()
    pr = aero_geom_problem([_lr_surface(desc, right, True)], fl)
    pr.run_model()
    ml, mr = pl.get_val("wing.mesh"), pr.get_val("wing.mesh")
    span = float(np.max(np.abs(left[:, :, 1])))
    err = float(np.max(np.abs(mirror_mesh(mr) - ml)))
    if desc["mode"] == "probe_dv":
        if err > 1e-9 * span:
            out.fail("KF-C07-rightDV:sweep_dihedral_taper_on_right_half", "mesh mismatch %.3e m using %s" % (err, desc["use"]))
    elif desc["mode"] == "probe_rotate":
        if err > 1e-9 * span:
            out.fail("KF-C07-rightRotate:twisted_chords_with_dihedral_on_right_half", "mesh mismatch %.3e m" % err)
    else:
        out.close("lr/mesh", mirror_mesh(mr), ml, rtol=1e-10, scale=span)
        for c in ("CL", "CD"):
            out.close("lr/" + c, pr.get_val("aero_point_0." + c), pl.get_val("aero_point_0." + c), rtol=1e-9, atol=1e-13)
        out.close("lr/CM", pr.get_val("aero_point_0.CM"), pl.get_val("aero_point_0.CM"), rtol=1e-9, atol=1e-12)
        Fl = pl.get_val("aero_point_0.aero_states.wing_sec_forces")
        Fr = pr.get_val("aero_point_0.aero_states.wing_sec_forces")
        # (a non-lifting case has sectional forces that are round-off of the O(q S) panel terms: never judged finer than that)
        qS = 0.5 * float(pl.get_val("rho")[0]) * float(pl.get_val("v")[0]) ** 2 * float(pl.get_val("aero_point_0.wing.S_ref")[0])
        out.close("lr/sec_forces", Fr[:, ::-1, :] * R, Fl, rtol=1e-9, scale=max(float(np.max(np.abs(Fl))), 1e-6 * qS))
        # ... and so must the sensitivities: d(CL, CD)/d(control points) of the right half are those of the left half with
        # the control points in reverse order (y-shear: opposite sign); two live models of equal size in one process
        of = ["aero_point_0.CL", "aero_point_0.CD"]
        wrt = ["alpha"] + ["wing.%s_cp" % n for n in ("twist", "chord", "xshear", "yshear", "zshear") if n in desc["use"]]
        if "span" in desc["use"]:
            wrt.append("wing.span")
        Jl = pl.compute_totals(of=of, wrt=wrt)
        Jr = pr.compute_totals(of=of, wrt=wrt)
        for o in of:
            for w in wrt:
                a, b = np.atleast_2d(Jl[o, w]), np.atleast_2d(Jr[o, w])
                if w.endswith("_cp"):
                    b = b[:, ::-1] * (-1.0 if "yshear" in w else 1.0)
                sc = max(float(np.max(np.abs(a))), float(np.max(np.abs(b))))
                out.close("lr/d_%s/d_%s" % (o.split(".")[-1], w.split(".")[-1]), b, a, rtol=1e-8, atol=1e-12, scale=sc)
    for u in desc["use"]:
        out.label("dv=" + u)
    out.label("ncp=%d" % desc["ncp"])
    out.nontrivial = bool(abs(float(pl.get_val("aero_point_0.CL")[0])) > 1e-6)
    return out


# ------------------------------------------------------------------------------------------------------------------ (d)
@st.composite
def fs_cfg(draw):
    """full-span (symmetry off) asymmetric wing through the Geometry group with design variables, against its mirror image"""
    md = draw(S.mesh(kinds=("asym", "full"), nx=(2, 3), nyh=(2, 4), noise=False, winglet=False, root_offsets=True, max_twist=0.0,
                     max_camber=0.0))
    md["root_twist"] = 0.0  # flat chords: the Rotate no-op finding (KF-C13-rotate) concerns pre-twisted chords with dihedral
    ncp = draw(st.integers(1, 4))
    use = draw(st.lists(st.sampled_from(["twist", "chord", "xshear", "yshear", "zshear", "span", "sweep", "dihedral", "taper"]),
                        min_size=1, max_size=5, unique=True))
    if "twist" in use:
        # twist about a reference axis with z-slope is the recorded Rotate behaviour; keep the axis planar
        md["side"]["dihedral"] = 0.0
        if "right" in md:
            md["right"]["dihedral"] = 0.0
        use = [u for u in use if u not in ("dihedral", "zshear")]
    return dict(
        mesh=md, ncp=ncp, use=use,
        twist_cp=[draw(S.fl(-6.0, 6.0, 0.0)) for _ in range(ncp)],
        chord_cp=[draw(S.fl(0.5, 2.0, 1.0)) for _ in range(ncp)],
        xshear_cp=[draw(S.fl(-0.5, 0.5, 0.0)) for _ in range(ncp)],
        yshear_cp=[draw(S.fl(-0.2, 0.2, 0.0)) for _ in range(ncp)],
        zshear_cp=[draw(S.fl(-0.5, 0.5, 0.0)) for _ in range(ncp)],
        span_factor=draw(S.fl(0.5, 2.0, 1.0)),
        sweep=draw(S.fl(-20.0, 30.0, 10.0)), dihedral=draw(S.fl(-10.0, 15.0, 5.0)), taper=draw(S.fl(0.3, 1.5, 0.6)),
        ref_axis_pos=draw(st.sampled_from([0.25, 0.0, 0.6, 1.0])),
        alpha=draw(S.fl(-5.0, 10.0, 4.0)), beta=draw(S.fl(-10.0, 10.0, 0.0)),
        mode="main",
    )


def fs_verdict(desc):
    out = Outcome()
    m1 = build_mesh(desc["mesh"])
    m2 = mirror_mesh(m1)
    s1 = _lr_surface(desc, m1, False)
    s2 = _lr_surface(desc, m2, True)
    for s, m in ((s1, m1), (s2, m2)):
        s["symmetry"] = False
        if "span" in desc["use"]:
            s["span"] = float(m[0, -1, 1] - m[0, 0, 1]) * desc["span_factor"]
    p1 = aero_geom_problem([s1], dict(alpha=desc["alpha"], beta=desc["beta"]))
    p1.run_model()
    p2 = aero_geom_problem([s2], dict(alpha=desc["alpha"], beta=-desc["beta"]))
    p2.run_model()
    span = float(np.max(np.abs(m1[:, :, 1])))
    out.close("fs/mesh", mirror_mesh(p2.get_val("wing.mesh")), p1.get_val("wing.mesh"), rtol=1e-10, scale=span)
    for c in ("CL", "CD"):
        out.close("fs/" + c, p2.get_val("aero_point_0." + c), p1.get_val("aero_point_0." + c), rtol=1e-9, atol=1e-13)
    out.close("fs/CM", p2.get_val("aero_point_0.CM") * np.array([-1.0, 1.0, -1.0]), p1.get_val("aero_point_0.CM"), rtol=1e-9,
              atol=1e-12)
    F1 = p1.get_val("aero_point_0.aero_states.wing_sec_forces")
    F2 = p2.get_val("aero_point_0.aero_states.wing_sec_forces")
    qS = 0.5 * float(p1.get_val("rho")[0]) * float(p1.get_val("v")[0]) ** 2 * float(p1.get_val("aero_point_0.wing.S_ref")[0])
    out.close("fs/sec_forces", F2[:, ::-1, :] * R, F1, rtol=1e-9, scale=max(float(np.max(np.abs(F1))), 1e-6 * qS))
    for u in desc["use"]:
        out.label("fsdv=" + u)
    out.label("fs-kind=" + desc["mesh"]["kind"])
    out.nontrivial = bool(abs(float(p1.get_val("aero_point_0.CL")[0])) > 1e-6)
    return out


SUBS = [
    Sub("aero_mirror", aero_cfg(), aero_verdict, quick=640, thorough=12000),
    Sub("as_symmetry", as_cfg(), as_verdict, quick=200, thorough=4000),
    Sub("left_right_geometry", lr_cfg(), lr_verdict, quick=400, thorough=8000),
    Sub("full_span_geometry_mirror", fs_cfg(), fs_verdict, quick=320, thorough=8000),
    Sub("right_half_dv_probe", lr_cfg(mode="probe_dv"), lr_verdict, quick=32, thorough=300, max_shards=4),
    Sub("right_half_rotate_probe", lr_cfg(mode="probe_rotate"), lr_verdict, quick=16, thorough=150, max_shards=4),
]
