"""C20  Invalid set-ups are rejected loudly; valid ones give finite, repeatable results and never modify the user's meshes
(DESIGN.md section 4, C20).

Sub-checks
    fault_rejected      a valid documented 'user script' with exactly one LISTED fault injected -> generate_mesh / setup raises;
                        unknown dictionary key -> RuntimeWarning naming the key and otherwise identical results; the very same
                        template without a fault raises nothing and emits no unknown-key warning (both directions)
    valid_repeatable    admissible configurations: every output finite; run twice / two independently built problems agree to
                        1e-12; totals repeatable; SHA-256 of all user mesh arrays unchanged after setup / run / linearise
    interleaving        state machine over 2-3 independent Problems (sharing the surface dictionary objects or not): build, run,
                        set point, compute_totals, clone-from-the-same-dict in any order; every problem always reproduces its solo
                        baseline; user meshes never change
"""
import copy
import warnings

import numpy as np
from hypothesis import strategies as st

from oasv import strategies as S
from oasv.core import HistorySub, Outcome, Sub

RULE = (
    "Templates are user scripts written with the documented API only (generate_mesh dictionary -> surface dictionary -> "
    "Geometry+AeroPoint | SpatialBeamAlone | AerostructGeometry+AerostructPoint | MultiSecGeometry+AeroPoint): rect/CRM, "
    "num_x 2-4, odd num_y 3-9, symmetry on/off, span/chord/spacing/offset, tube/wingbox, viscous/wave/ground "
    "effect/compressible, optional tail, 2-3 sections generated or user meshes.  fault_rejected draws a template and one of "
    "the faults LISTED by the property (or 'none'); valid_repeatable draws templates only; interleaving draws 2-3 problem "
    "specifications over 1-2 sets of surface dictionaries (shared objects or separate), two operating points each, and "
    "Hypothesis' state machine interleaves build/run/set_point/totals/clone.  non-trivial: fault case = the fault was "
    "actually injected (or the valid twin was exercised); repeatability case = |CL| or max|disp| > 0; history = operations "
    "on at least two different problems with at least one switch between them; distinct = descriptor digest."
)
ASSUMPTIONS = [
    "only the fault classes the property lists are asserted (ground effect without symmetry, even num_y, unknown wing_type, "
    "unknown fem_model_type, exactly one of spar/skin thickness cp, multi-section lists ny/taper/span/sweep/sec_name/meshes "
    "of wrong length - exactly the lists build_sections validates); any exception type counts as 'loud' (the type seen is "
    "recorded as a class label); exceptions on other malformed inputs are never violations",
    "unknown wing_type strings are drawn from names that do not contain 'CRM' (the code documents every 'CRM...' string as "
    "a CRM variant; 'CRM:foo' being accepted silently is an unlisted malformed input)",
    "unknown-key warning = a RuntimeWarning whose text contains the key; the converse direction requires that the valid "
    "template emits NO RuntimeWarning containing 'Key `' and raises nothing",
    "unknown keys are drawn from a list of plausible typos none of which is read anywhere in openaerostruct (checked by "
    "grep): 'otherwise identical results' = every output of the model equal to 1e-12",
    "reproducibility tolerance 1e-12 relative to the largest entry of each output array (coupled problems: Gauss-Seidel "
    "tolerance tightened to 1e-12 absolute after setup, as in the other coupled checks; measured floor 1e-13); aerodynamic "
    "and structural problems are bit-reproducible (measured 0); total derivatives are compared at 1e-10 (interleaving: 1e-9): for "
    "coupled problems they inherit the state's Gauss-Seidel convergence error amplified by the linearisation (measured "
    "2e-11 relative between two runs of one problem, 0 for uncoupled problems)",
    "valid multi-section generator uses equal ny per section when t_over_c_cp is present and puts all sections of a "
    "non-symmetric wing left of the root (KF-C14-unif-toc / KF-C14-multisec are C14's findings and excluded here by "
    "construction)",
    "aerostructural cases are generated at positive incidence (alpha in [1, 6] deg): the Breguet fuel burn - and with it "
    "total weight, cg and CM - is singular at CL = 0, which is not an admissible operating point",
    "groundplane=True with compressible=True is rejected at set-up by the pinned tree (OpenMDAO RuntimeError about "
    "height_agl): loud, hence allowed; the class is excluded from the valid generator and probe_ground_compressible only "
    "asserts that it never yields non-finite numbers silently",
    "interleaving baselines are computed first, from deep copies of the dictionaries, in the same process",
]

TOL = 1e-12


# ---------------------------------------------------------------------------------------------------------------------
# strategies


@st.composite
def mesh_desc(draw, max_ny=9):
    wt = draw(st.sampled_from(["rect", "rect", "CRM"]))
    sym = draw(st.booleans())
    nyh = draw(st.integers(1, (max_ny - 1) // 2))
    num_y = 2 * nyh + 1
    if not sym or wt == "CRM":
        num_y = max(num_y, 5)
    return dict(wing_type=wt, num_x=draw(st.integers(2, 4)), num_y=num_y, symmetry=sym,
                span=draw(S.fl(4.0, 14.0, 10.0)), root_chord=draw(S.fl(0.6, 2.0, 1.0)),
                span_cos_spacing=draw(S.fl(0.0, 1.0, 0.0)), chord_cos_spacing=draw(S.fl(0.0, 1.0, 0.0)),
                offset=[draw(S.fl(-2.0, 2.0, 0.0)), 0.0, draw(S.fl(-1.0, 1.0, 0.0))], num_twist_cp=draw(st.integers(2, 4)))


@st.composite
def flow_desc(draw):
    return dict(v=draw(S.fl(30.0, 100.0, 80.0)), alpha=draw(S.fl(-3.0, 6.0, 3.0)), beta=0.0, Mach=draw(S.fl(0.1, 0.6, 0.3)),
                re=draw(S.logfl(5.5, 7.0, 1e6)), rho=draw(S.fl(0.4, 1.2, 1.0)))


@st.composite
def ms_desc(draw):
    n = draw(st.sampled_from([2, 3, 3, 4]))
    sym = draw(st.booleans())
    toc = draw(st.booleans())
    if toc:
        ny0 = draw(st.sampled_from([3, 5]))
        nys = [ny0] * n
    else:
        nys = [draw(st.sampled_from([3, 5] if not sym else [2, 3, 4, 5])) for _ in range(n)]
    return dict(n=n, symmetry=sym, gen=draw(st.booleans()), ny=nys, toc=toc, nx=draw(st.integers(2, 3)),
                taper=[draw(S.fl(0.5, 1.0, 1.0)) for _ in range(n)], span=[draw(S.fl(0.8, 3.0, 1.0)) for _ in range(n)],
                sweep=[draw(S.fl(0.0, 0.4, 0.0)) for _ in range(n)], viscous=toc and draw(st.booleans()),
                joining=draw(st.booleans()),
                # user-supplied section meshes given in frames of their own: the unification aligns the leading edges of
                # neighbouring sections (shift_uni_mesh, default True), so a translation per section is admissible
                # (the last section is the one the others are aligned to: on a symmetric surface its root edge stays on y = 0)
                offsets=[[draw(S.fl(-1.0, 1.0, 0.0)), 0.0 if (sym and i == n - 1) else draw(S.fl(-0.5, 0.5, 0.0)),
                          draw(S.fl(-0.5, 0.5, 0.0))] for i in range(n)])


@st.composite
def template(draw, kinds=("aero", "struct", "aerostruct", "multisec", "mesh")):
    kind = draw(st.sampled_from(list(kinds)))
    t = dict(kind=kind, flow=draw(flow_desc()))
    if kind == "multisec":
        t["ms"] = draw(ms_desc())
        t["compressible"] = draw(st.booleans())
        return t
    t["mesh"] = draw(mesh_desc(max_ny=7 if kind == "aerostruct" else 9))
    if kind in ("struct", "aerostruct"):
        t["model"] = draw(st.sampled_from(["tube", "wingbox"]))
        t["mesh"]["num_y"] = max(t["mesh"]["num_y"], 5)
    if kind in ("aero", "aerostruct"):
        t["viscous"] = draw(st.booleans())
        t["wave"] = draw(st.sampled_from([False, False, True]))
        t["compressible"] = draw(st.booleans())
        t["tail"] = draw(st.sampled_from([False, False, True]))
        if t["mesh"]["symmetry"]:
            t["ground"] = draw(st.sampled_from([False, False, True]))
            if t["ground"]:
                t["compressible"] = False  # ground effect + compressible=True: see probe_ground_compressible
    if kind == "aerostruct":
        t["weight_relief"] = draw(st.booleans())
        # rectangular wings only: the 58 m CRM planform with the template's thin structure does not reach the tightened
        # Gauss-Seidel tolerance (residuals ~1e5 N): a solver matter (C12), not one of repeatability
        t["mesh"]["wing_type"] = "rect"
        # positive lift: the Breguet fuel burn (and with it cg, total weight, CM) is singular at CL = 0
        t["flow"]["alpha"] = draw(S.fl(1.0, 6.0, 3.0))
    return t


@st.composite
def fault_case(draw):
    from oasv.setups import FAULTS

    pool = ["none"] * 4
    for f in sorted(FAULTS):
        pool += [f] * (1 if f.startswith("ms_len_") else (8 if f == "unknown_key_surface" else 3))
    fault = draw(st.sampled_from(pool))
    kinds = FAULTS[fault] if fault != "none" else ("aero", "struct", "aerostruct", "multisec", "mesh")
    t = draw(template(kinds=kinds))
    params = dict(which=draw(st.integers(0, 59)), shorter=draw(st.booleans()), even=draw(st.sampled_from([4, 2, 6, 8])),
                  surface=draw(st.integers(0, 1)), value=draw(st.sampled_from([3, 0.5, "x", True])))
    # make the template compatible with the fault so that exactly one fault is present
    if fault == "ground_no_symmetry":
        t["mesh"]["symmetry"] = False
        t["mesh"]["num_y"] = max(t["mesh"]["num_y"], 5)
        t.pop("ground", None)
    if fault == "one_thickness_cp":
        t["model"] = "wingbox"
        params["surface"] = 0
    if fault == "unknown_fem_model_type":
        params["surface"] = 0
    if fault in ("ms_len_ny", "ms_len_taper", "ms_len_span", "ms_len_sweep"):
        t["ms"]["gen"] = True
    if fault == "ms_len_meshes":
        t["ms"]["gen"] = False
    return dict(template=t, fault=fault, params=params)


# ---------------------------------------------------------------------------------------------------------------------
# (a) listed faults are rejected, valid twins are accepted


def _run_script(t, mutate, run):
    """-> (exception or None, list of RuntimeWarning texts, outputs dict or mesh, script)"""
    from oasv.setups import Script, all_outputs

    res, script, exc = None, None, None
    with warnings.catch_warnings(record=True) as w:
        warnings.simplefilter("always")
        try:
            script = Script(t, mutate=mutate)
            prob = script.build()
            if prob is None:
                res = {"mesh": script.mesh.copy()}
            elif run:
                prob.run_model()
                res = all_outputs(prob)
        except Exception as e:  # noqa: BLE001  the whole point is to observe it
            exc = e
    texts = [str(x.message) for x in w if issubclass(x.category, RuntimeWarning)]
    if exc is not None and not _library_frame(exc):
        raise exc  # raised by the harness' own script code: a harness error, never a verdict
    return exc, texts, res, script


def _library_frame(exc):
    import traceback

    for fr in traceback.extract_tb(exc.__traceback__):
        f = fr.filename.replace("\\", "/")
        if "/openaerostruct/" in f or "/openmdao/" in f:
            return True
    return False


def verdict_fault(desc):
    from oasv.setups import apply_fault, unknown_key_name

    out = Outcome()
    t = desc["template"]
    fault = desc["fault"]
    out.label("fault=" + fault, "template=" + t["kind"])
    # valid twin first: must build (and run) silently
    exc0, w0, res0, _ = _run_script(copy.deepcopy(t), None, run=True)
    if exc0 is not None:
        import openmdao.api as om
        from oasv.core import Discard

        if isinstance(exc0, om.AnalysisError) or "infs or NaNs" in str(exc0):
            # the aerostructural coupling of this (valid) configuration does not converge: that is an analysis outcome,
            # reported loudly, not a verdict on configuration validation -- nothing to compare the faulty twin with
            raise Discard("valid template does not converge: %s" % str(exc0)[:120])
        out.fail("valid/raised", "valid template raised %s: %s" % (type(exc0).__name__, str(exc0)[:200]))
        return out
    keyw = [x for x in w0 if "Key `" in x]
    out.true("valid/unknown_key_warning", not keyw, "valid template warns: %s" % keyw[:2])
    for name, v in res0.items():
        if not np.all(np.isfinite(v)):
            out.fail("valid/non_finite", "output %s of the valid template is not finite" % name)
            break
    if fault == "none":
        out.nontrivial = True
        return out
    mutate = apply_fault(fault, desc["params"])
    if fault.startswith("unknown_key"):
        key = unknown_key_name(fault, desc["params"])
        exc, w, res, _ = _run_script(copy.deepcopy(t), mutate, run=True)
        if exc is not None:
            out.fail("unknown_key/raised", "unknown key `%s` raised %s: %s" % (key, type(exc).__name__, str(exc)[:200]))
            return out
        named = [x for x in w if ("`%s`" % key) in x]
        anyw = [x for x in w if "Key `" in x]
        if not anyw:
            out.fail("unknown_key/no_warning", "no RuntimeWarning for unknown key `%s` (%s)" % (key, t["kind"]))
        elif not named:
            out.fail("unknown_key/not_named", "warning does not name `%s`: %s" % (key, anyw[:1]))
        else:
            out.true("unknown_key/warned", True)
        if set(res) != set(res0):
            out.fail("unknown_key/results_differ", "different set of outputs")
        else:
            for name in res0:
                out.close("unknown_key/results_differ", res[name], res0[name], rtol=TOL, msg=name)
        out.label("key=" + key)
        out.nontrivial = True
        return out
    exc, w, res, script = _run_script(copy.deepcopy(t), mutate, run=False)
    if exc is None:
        out.fail("fault_accepted/" + fault, "listed fault %s accepted silently by %s (%s)" % (fault, t["kind"], desc["params"]))
    else:
        out.true("fault_rejected/" + fault, True)
        out.label("exc=%s:%s" % (fault, type(exc).__name__))
    out.nontrivial = True
    return out


# ---------------------------------------------------------------------------------------------------------------------
# (b) valid configurations: finite, repeatable, non-mutating


def _cmp_outputs(out, key, a, b, tol=TOL):
    if set(a) != set(b):
        out.fail(key, "different sets of outputs: %s" % sorted(set(a) ^ set(b))[:4])
        return
    for name in a:
        out.close(key, a[name], b[name], rtol=tol, atol=1e-300, msg=name)


def _totals(script, prob):
    of, wrt = script.totals_spec()
    if not of:
        return {}
    J = prob.compute_totals(of=of, wrt=wrt)
    return {"d(%s)/d(%s)" % k: np.array(v, float).copy() for k, v in J.items()}


def verdict_valid(desc):
    from oasv.setups import Script, all_outputs, mesh_hashes

    out = Outcome()
    t = desc["template"]
    out.label("template=" + t["kind"])
    for k in ("model",):
        if k in t:
            out.label("%s=%s" % (k, t[k]))
    for k in ("viscous", "wave", "ground", "compressible", "tail", "weight_relief"):
        if t.get(k):
            out.label(k)
    if "mesh" in t:
        out.label("wing_type=" + t["mesh"]["wing_type"], "symmetric" if t["mesh"]["symmetry"] else "full_span")
    if "ms" in t:
        out.label("ms_gen" if t["ms"]["gen"] else "ms_user_meshes", "ms_sym" if t["ms"]["symmetry"] else "ms_full",
                  "ms_n=%d" % t["ms"]["n"])
        if not t["ms"]["gen"] and np.any(np.array(t["ms"].get("offsets", [[0.0]])) != 0.0):
            out.label("ms_sections_in_own_frames")

    s1 = Script(copy.deepcopy(t))
    users = s1.surfaces
    h0 = mesh_hashes(users)
    snap = [s["mesh"].copy() if isinstance(s.get("mesh"), np.ndarray) else None for s in users]
    p1 = s1.build()
    h_setup = mesh_hashes(users)
    # multi-section: the documented recipe ADDS surface["mesh"] (the unified mesh) before setup; compare common keys
    for k in h0:
        out.true("mutated/setup", h_setup.get(k) == h0[k], "user entry %s changed during setup" % k)
    from oasv.setups import added_keys

    new_keys = added_keys(h0, h_setup, allowed=("mesh",) if t["kind"] == "multisec" else ())
    out.true("mutated/keys_added_at_setup", not new_keys, "setup wrote new keys into the user's surface dictionary: %s" % new_keys)
    h0 = h_setup
    p1.run_model()
    a = all_outputs(p1)
    for k in h0:
        out.true("mutated/run", mesh_hashes(users).get(k) == h0[k], "user array %s changed during run_model" % k)
    bad = [n for n, v in a.items() if not np.all(np.isfinite(v))]
    out.true("non_finite", not bad, "non-finite outputs: %s" % bad[:4])
    ta = _totals(s1, p1)
    for k in h0:
        out.true("mutated/linearize", mesh_hashes(users).get(k) == h0[k], "user array %s changed during compute_totals" % k)
    badt = [n for n, v in ta.items() if not np.all(np.isfinite(v))]
    out.true("non_finite_totals", not badt, "non-finite totals: %s" % badt[:4])
    # second run of the same problem
    p1.run_model()
    _cmp_outputs(out, "rerun/outputs", all_outputs(p1), a)
    tb = _totals(s1, p1)
    _cmp_outputs(out, "rerun/totals", tb, ta, tol=1e-10)
    # independent problem from independently expanded dictionaries
    s2 = Script(copy.deepcopy(t))
    p2 = s2.build()
    p2.run_model()
    _cmp_outputs(out, "independent/outputs", all_outputs(p2), a)
    _cmp_outputs(out, "independent/totals", _totals(s2, p2), ta, tol=1e-10)
    # a third problem built from the SAME dictionaries the first one used
    if t["kind"] != "multisec":
        p3 = s1.build()
        p3.run_model()
        _cmp_outputs(out, "same_dict/outputs", all_outputs(p3), a)
        for k in h0:
            out.true("mutated/second_setup", mesh_hashes(users).get(k) == h0[k], "user array %s changed by a second problem" % k)
    for s, m in zip(users, snap):
        if m is not None and "is_multi_section" not in s:
            out.true("mutated/values", np.array_equal(s["mesh"], m), "mesh values changed")
    sig = 0.0
    for n, v in a.items():
        if n.endswith(".CL") or n.endswith("disp") or n == "disp":
            sig = max(sig, float(np.max(np.abs(v))))
    out.nontrivial = bool(sig > 0.0)
    return out


def verdict_valid_direct(desc):
    """the multi-surface configurations of the aerodynamic strategies (meshes fed to AeroPoint directly, sideslip, rotation
    rates, compressible on/off, viscous/wave drag): finite, repeatable, independent builds agree, meshes untouched"""
    from oasv.layouts import place_surfaces, symmetry_of
    from oasv.models import aero_direct, aero_surface
    from oasv.setups import all_outputs, mesh_hashes

    out = Outcome()
    fl = desc["flow"]
    descs = desc["surfaces"]
    comp = bool(desc["compressible"])

    def surfaces():
        meshes = place_surfaces(descs, fl["alpha"])
        return [aero_surface("s%d" % k, m, symmetry_of(sd["mesh"]), with_viscous=bool(desc["viscous"]),
                             with_wave=bool(desc["wave"])) for k, (sd, m) in enumerate(zip(descs, meshes))]

    users = surfaces()
    h0 = mesh_hashes(users)
    p1 = aero_direct(users, fl, compressible=comp)
    p1.run_model()
    a = all_outputs(p1)
    bad = [n for n, v in a.items() if not np.all(np.isfinite(v))]
    out.true("non_finite", not bad, "non-finite outputs: %s" % bad[:4])
    J1 = p1.compute_totals(of=["aero_point_0.CL", "aero_point_0.CD"], wrt=["alpha", "s0_mesh"])
    p1.run_model()
    _cmp_outputs(out, "rerun/outputs", all_outputs(p1), a)
    p2 = aero_direct(surfaces(), fl, compressible=comp)
    p2.run_model()
    _cmp_outputs(out, "independent/outputs", all_outputs(p2), a)
    J2 = p2.compute_totals(of=["aero_point_0.CL", "aero_point_0.CD"], wrt=["alpha", "s0_mesh"])
    _cmp_outputs(out, "independent/totals", {str(k): np.array(v) for k, v in J2.items()}, {str(k): np.array(v) for k, v in J1.items()},
                 tol=1e-10)
    p3 = aero_direct(users, fl, compressible=comp)  # same dictionary objects again
    p3.run_model()
    _cmp_outputs(out, "same_dict/outputs", all_outputs(p3), a)
    for k, v in mesh_hashes(users).items():
        out.true("mutated/direct", h0[k] == v, "user array %s changed" % k)
    out.label("template=direct", "nsurf=%d" % len(descs))
    for k in ("compressible", "viscous", "wave"):
        if desc[k]:
            out.label(k)
    if "omega" in fl:
        out.label("rotation")
    if fl["beta"] != 0:
        out.label("sideslip")
    out.nontrivial = bool(abs(float(a["aero_point_0.total_perf.CL_CD.CL"][0])) > 0.0) if "aero_point_0.total_perf.CL_CD.CL" in a else True
    return out


# ---------------------------------------------------------------------------------------------------------------------
# probe: ground effect together with compressible=True (rejected loudly by the pinned tree; excluded from the valid generator)


@st.composite
def ground_compressible_case(draw):
    t = draw(template(kinds=("aero", "aerostruct")))
    t["mesh"]["symmetry"] = True
    t["ground"] = True
    t["compressible"] = True
    return dict(template=t)


def verdict_probe_ground(desc):
    """groundplane=True together with compressible=True is not supported by the pinned tree: set-up stops with OpenMDAO's
    "promotes_inputs failed to find ... height_agl" (CompressibleVLMStates does not expose that input).  That is loud, hence
    allowed; the class is excluded from the valid-configuration generator.  The probe only guards the forbidden direction:
    the combination must never produce non-finite numbers silently.  It raises -> fine; it sets up cleanly (a future tree
    supporting it) -> every output must be finite and the user meshes untouched."""
    from oasv.setups import Script, all_outputs, mesh_hashes

    out = Outcome()
    t = desc["template"]
    out.label("template=" + t["kind"])
    sc = None
    with warnings.catch_warnings():
        warnings.simplefilter("ignore")
        try:
            sc = Script(copy.deepcopy(t))
            h0 = mesh_hashes(sc.surfaces)
            p = sc.build()
        except Exception as e:  # noqa: BLE001
            if not _library_frame(e):
                raise
            out.true("probe/ground_compressible_loud", True)
            out.label("ground+compressible:raises_%s" % type(e).__name__)
            if sc is not None:
                for k, v in mesh_hashes(sc.surfaces).items():
                    out.true("probe/ground_compressible_mutated", h0.get(k) == v, "user array %s changed by the failed set-up" % k)
            return out
    p.run_model()
    o = all_outputs(p)
    bad = [n for n, v in o.items() if not np.all(np.isfinite(v))]
    out.true("probe/ground_compressible_non_finite", not bad, "non-finite outputs: %s" % bad[:4])
    for k, v in mesh_hashes(sc.surfaces).items():
        out.true("probe/ground_compressible_mutated", h0.get(k) == v, "user array %s changed" % k)
    out.label("ground+compressible:sets_up")
    return out


# ---------------------------------------------------------------------------------------------------------------------
# (c) interleaving of independent problems


@st.composite
def machine_cfg(draw):
    ndict = draw(st.sampled_from([1, 2, 2]))
    # in a third of the machines every dictionary is a symmetric ground-effect surface (same surface name, different sizes)
    all_ground = draw(st.sampled_from([False, False, True]))
    dicts = []
    for _ in range(ndict):
        md = draw(mesh_desc(max_ny=7))
        md["num_y"] = max(md["num_y"], 5)
        if all_ground:
            md["symmetry"] = True
        dicts.append(dict(mesh=md, model=draw(st.sampled_from(["tube", "wingbox"])), viscous=draw(st.booleans()),
                          weight_relief=draw(st.booleans()),
                          # ground effect keeps per-surface constant data in the components: a class of its own for cross-talk
                          ground=(True if all_ground else draw(st.booleans())) if md["symmetry"] else False))
    nprob = draw(st.sampled_from([2, 2, 3]))
    probs = []
    for k in range(nprob):
        kind = draw(st.sampled_from(["aero", "aerostruct", "struct", "aero"]))
        pts = [dict(draw(flow_desc()), load_factor=1.0), dict(draw(flow_desc()), load_factor=draw(S.fl(0.5, 2.5, 2.5)))]
        if kind == "aerostruct":
            for pt in pts:
                pt["alpha"] = draw(S.fl(1.0, 6.0, 3.0))  # positive lift (Breguet singular at CL = 0)
        probs.append(dict(kind=kind, dict=draw(st.integers(0, ndict - 1)) if k >= ndict else k % ndict,
                          compressible=draw(st.booleans()),
                          points=pts))
    for pr in probs:
        if pr["kind"] == "aerostruct":
            dicts[pr["dict"]]["mesh"]["wing_type"] = "rect"  # see template(): convergence of the coupled CRM template
        if dicts[pr["dict"]].get("ground"):
            pr["compressible"] = False  # ground effect + compressible cannot be set up (loud rejection)
    return dict(dicts=dicts, problems=probs)


class Machine:
    """interpreter of interleaving histories"""

    def __init__(self, cfg):
        from oasv.setups import Script, mesh_hashes

        import openmdao.api as om

        self.cfg = cfg
        self.labels = []
        self.residuals = {}
        self.dead = False
        self.touched = []
        try:
            self._init(cfg)
        except om.AnalysisError:
            # a baseline did not converge: nothing to compare against.  (The runner would stop the state machine with
            # "no rule enabled" if this surfaced as an exception, so the machine turns into a recorded no-op instead.)
            self.dead = True
            self.labels = ["dead:baseline_not_converged"]

    def _init(self, cfg):
        from oasv.setups import Script, mesh_hashes

        # the user's dictionaries: ONE structural surface dictionary per entry, shared by every problem that refers to it
        self.users = []
        for d in cfg["dicts"]:
            t = dict(kind="aerostruct", mesh=d["mesh"], model=d["model"], viscous=d["viscous"], weight_relief=d["weight_relief"],
                     ground=bool(d.get("ground")))
            self.users.append(Script(t).surfaces)
        self.specs = cfg["problems"]
        self.hash0 = [mesh_hashes(u) for u in self.users]
        # solo baselines from deep copies, before anything else exists
        self.base = []
        for sp in self.specs:
            row = []
            for pt in sp["points"]:
                sc = self._script(sp, copy.deepcopy(self.users[sp["dict"]]))
                p = sc.build()
                self._set_point(p, sp, pt)
                p.run_model()
                row.append((self._outputs(p), self._tot(sc, p)))
            self.base.append(row)
        n = len(self.specs)
        self.probs = [None] * n
        self.scripts = [None] * n
        self.point = [0] * n
        self.clean = [False] * n
        self.extra = []
        shared = len(set(sp["dict"] for sp in self.specs)) < n
        self.labels.append("shared_dicts" if shared else "separate_dicts")
        if any(d.get("ground") for d in cfg["dicts"]):
            self.labels.append("ground")
        if len({(d["mesh"]["num_x"], d["mesh"]["num_y"]) for d in cfg["dicts"]}) > 1:
            self.labels.append("different_mesh_sizes")
        for sp in self.specs:
            lab = "kind=" + sp["kind"]
            if lab not in self.labels:
                self.labels.append(lab)

    # -- helpers
    def _script(self, sp, surfaces):
        from oasv.setups import Script

        sc = Script.__new__(Script)
        sc.t = dict(kind=sp["kind"], compressible=sp["compressible"])
        sc.kind = sp["kind"]
        sc.flow = dict(sp["points"][0])
        sc.surfaces = surfaces
        sc.mdict = None
        sc.mesh = None
        sc.prob = None
        return sc

    def _set_point(self, p, sp, pt):
        from oasv.setups import set_flow

        set_flow(p, sp["kind"], pt)

    def _outputs(self, p):
        from oasv.setups import all_outputs

        return all_outputs(p)

    def _tot(self, sc, p):
        return _totals(sc, p)

    def _build(self, i):
        sp = self.specs[i]
        sc = self._script(sp, self.users[sp["dict"]])
        p = sc.build()
        self._set_point(p, sp, sp["points"][self.point[i]])
        return sc, p

    def _resid(self, out):
        for k, v in out.residuals.items():
            if k not in self.residuals or v[0] > self.residuals[k][0]:
                self.residuals[k] = v

    def _check_meshes(self, out, op):
        from oasv.setups import mesh_hashes

        for j, u in enumerate(self.users):
            h = mesh_hashes(u)
            for k, v in self.hash0[j].items():
                out.true("mutated/" + op, h.get(k) == v, "user array %s of dictionary set %d changed after %s" % (k, j, op))

    def _check_others(self, out, i):
        """every other problem that has been run at its current point still holds its baseline outputs"""
        for j, p in enumerate(self.probs):
            if j == i or p is None or not self.clean[j]:
                continue
            _cmp_outputs(out, "crosstalk/outputs", self._outputs(p), self.base[j][self.point[j]][0])

    def enabled(self, op):
        return True

    def apply(self, op, args):
        import openmdao.api as om

        out = Outcome()
        if self.dead:
            return out
        try:
            return self._apply(op, args, out)
        except om.AnalysisError as e:
            self.dead = True
            self.labels.append("dead:not_converged_in_history")
            out.note_inconclusive("AnalysisError during %s: %s" % (op, str(e)[:120]))
            return out

    def _apply(self, op, args, out):
        i = int(args["p"]) % len(self.specs)
        self.touched.append(i)
        if op == "build":
            self.scripts[i], self.probs[i] = self._build(i)
            self.clean[i] = False
        elif op == "set_point":
            if self.probs[i] is None:
                self.scripts[i], self.probs[i] = self._build(i)
            self.point[i] = int(args["k"]) % 2
            self._set_point(self.probs[i], self.specs[i], self.specs[i]["points"][self.point[i]])
            self.clean[i] = False
        elif op in ("run", "totals"):
            if self.probs[i] is None:
                self.scripts[i], self.probs[i] = self._build(i)
            if op == "run" or not self.clean[i]:
                self.probs[i].run_model()
                self.clean[i] = True
                _cmp_outputs(out, "interleaved/outputs", self._outputs(self.probs[i]), self.base[i][self.point[i]][0])
            if op == "totals":
                _cmp_outputs(out, "interleaved/totals", self._tot(self.scripts[i], self.probs[i]),
                             self.base[i][self.point[i]][1], tol=1e-9)
        elif op == "clone":
            # another problem from the same dictionary objects, run at the same point, kept alive
            sc, p = self._build(i)
            p.run_model()
            _cmp_outputs(out, "clone/outputs", self._outputs(p), self.base[i][self.point[i]][0])
            self.extra.append(p)
            if len(self.extra) > 3:
                self.extra.pop(0)
            if "cloned" not in self.labels:
                self.labels.append("cloned")
        self._check_meshes(out, op)
        self._check_others(out, i)
        self._resid(out)
        return out

    def nontrivial(self, history):
        if self.dead:
            return False
        t = self.touched
        switches = sum(1 for a, b in zip(t, t[1:]) if a != b)
        return len(set(t)) >= 2 and switches >= 2

    def close(self):
        self.probs = []
        self.extra = []


def make_machine(cfg):
    return Machine(cfg)


_P = st.fixed_dictionaries(dict(p=st.integers(0, 2)))
RULES = {
    "build": _P,
    "run": _P,
    "set_point": st.fixed_dictionaries(dict(p=st.integers(0, 2), k=st.integers(0, 1))),
    "totals": _P,
    "clone": _P,
}

SUBS = [
    Sub("fault_rejected", fault_case(), verdict_fault, quick=480, thorough=10000),
    Sub("valid_repeatable", st.fixed_dictionaries(dict(template=template(kinds=("aero", "struct", "aerostruct", "multisec")))),
        verdict_valid, quick=128, thorough=3000),
    Sub("valid_repeatable_direct",
        st.fixed_dictionaries(dict(surfaces=S.aero_config(max_surf=3), flow=S.flow(beta=True, rot=True), compressible=st.booleans(),
                                   viscous=st.booleans(), wave=st.sampled_from([False, False, True]))),
        verdict_valid_direct, quick=64, thorough=2000),
    Sub("probe_ground_compressible", ground_compressible_case(), verdict_probe_ground, quick=12, thorough=100, max_shards=2),
    HistorySub("interleaving", machine_cfg(), RULES, make_machine, quick=96, thorough=1600, steps=(10, 25), max_shards=8),
]
