"""C15  Stress recovery and failure aggregation are consistent and conservative (DESIGN.md section 4, C15)."""
import math

import numpy as np
from hypothesis import strategies as st

from oasv import beams as B
from oasv import strategies as S
from oasv.core import Outcome, Sub

RULE = (
    "Beam polylines as in C10 (half / full span, 'wing' and 'general' layouts, 1-12 (thorough: up to 59) elements), element "
    "radii or wingbox section data (htop, hbottom, hfront, hrear, Qz, J, A_enc, spar thickness; positive, 2 decades each), E, "
    "G, yield, upper-skin strength factor, and a displacement field of a drawn class: arbitrary (seed-expanded, amplitude "
    "1e-6..1e-1), rigid body (translation + rotation |theta| <= 1e-2 about a drawn point), pure strain modes of a straight "
    "beam (axial, bending about a drawn axis, twist, and their combination), each fed to SpatialBeamFunctionals (tube / "
    "wingbox; KS or exact failure).  Oracles: vonmises >= 0; rigid motion => vonmises <= 1e-9 E |theta|; homogeneity "
    "vm(k d) = k vm(d) for k > 0 (k < 0: |k| vm with the tube's two columns exchanged); closed forms restated from beam "
    "theory (oasv/ref_struct.py: triad-free tube formula; wingbox from the element's Hermite interpolant evaluated at one "
    "common section of the element, either fore-aft sense, see the probe); textbook values for the pure modes; "
    "FailureExact = vm/yield - 1; KS: max f <= KS <= max f + ln(N)/rho, finite for magnitudes up to 1e12 Pa, non-decreasing "
    "in every stress, for default and drawn rho, N up to 240 (thorough 2000) entries.  non-trivial = some stress > 0 "
    "(or a rigid field with |theta| > 0); distinct = descriptor digest."
)
ASSUMPTIONS = [
    "closed-form / homogeneity tolerance 1e-10 relative to the largest stress of the case plus the recovery round-off floor "
    "16 eps S, S = stress the nodal displacement magnitudes would produce without cancellation (E |u|/L, E h |u|/L^2, ...)",
    "rigid-body bound 1e-9 E |theta| plus the same floor (measured 3e-13 tube, 3e-11 wingbox); |theta| <= 1e-2 (linearised)",
    "KS bounds hold up to 16 eps (|max f| + ln(N)/rho + 1); N = number of aggregated entries (2 or 4 per element)",
    "wingbox local frame as documented: x = element axis, y = x cross e_x, z = x cross y; element directions >= 5 deg from x",
    "wingbox stresses with non-uniform curvature are compared at one section xi in {0, 0.05, .., 1, Gauss points} common to "
    "the four outputs of the element (the statement does not say where along the element stresses are recovered; the "
    "end-node choice is the subject of C07's known finding)",
    "the sense of the fore-aft bending term (which spar is stretched by a given curvature) is accepted in either of the two "
    "consistent assignments by the main search and judged by wingbox_foreaft_sense_probe",
    "homogeneity with k < 0 exchanges the tube's two outputs (tension-side / compression-side fibre) by definition",
]

TOL = 1e-10
XIS = sorted(set([round(0.05 * i, 2) for i in range(21)] + [0.5 - 0.5 / math.sqrt(3.0), 0.5 + 0.5 / math.sqrt(3.0)]))


# ----------------------------------------------------------------------------------------------------------------
# generators


def field():
    return st.fixed_dictionaries(
        dict(
            kind=st.sampled_from(["arbitrary", "rigid", "mode", "arbitrary", "mode"]),
            amp_exp=S.fl(-6.0, -1.0, -3.0),
            seed=st.integers(0, 10 ** 6),
            theta=st.lists(S.fl(-5.7e-3, 5.7e-3, 0.0), min_size=3, max_size=3),
            trans=st.lists(S.fl(-2.0, 2.0, 0.0), min_size=3, max_size=3),
            pivot=st.lists(S.fl(-5.0, 5.0, 0.0), min_size=3, max_size=3),
            eps=st.one_of(st.just(0.0), S.fl(-3e-3, 3e-3, 1e-4)),
            kappa=st.one_of(st.just(0.0), S.fl(-2e-2, 2e-2, 2e-3)),
            kappa_angle=S.fl(0.0, 360.0, 0.0, 90.0),
            phi=st.one_of(st.just(0.0), S.fl(-2e-2, 2e-2, 3e-3)),
            k=S.logfl(-2.0, 2.0, 2.5),
        )
    )


def stress_config(model, nel=(1, 12)):
    @st.composite
    def _c(draw):
        fd = draw(field())
        bd = draw(B.beam(nel=nel))
        if fd["kind"] == "mode":
            # pure strain modes need a straight beam
            bd["kink"] = 0.0
            bd["layout"] = "wing"
            if bd["kind"] == "full":
                bd["kind"] = "sym"
        d = dict(
            model=model,
            beam=bd,
            field=fd,
            E=draw(S.logfl(9.0, 11.5, 7.0e10)),
            G_over_E=draw(S.fl(0.3, 0.5, 0.4)),
            yield_=draw(S.logfl(6.0, 9.5, 2.0e8)),
            exact=draw(st.booleans()),
            sec_seed=draw(st.integers(0, 10 ** 6)),
            sec_spread=draw(S.fl(0.0, 1.0, 0.0)),
        )
        if model == "tube":
            d["r_exp"] = draw(S.fl(-2.0, 0.0, -1.0))
            d["t_rel"] = draw(S.fl(0.05, 1.0, 0.2))
        else:
            d["tssf"] = draw(S.fl(0.5, 2.0, 1.0))
            d["h_exp"] = draw(S.fl(-2.0, 0.0, -1.0))
        return d

    return _c()


def _wingbox_sections(desc, n):
    rng = np.random.default_rng(int(desc["sec_seed"]))
    h = 10.0 ** desc["h_exp"]
    sp = desc["sec_spread"]

    def f():
        return 10.0 ** (sp * rng.uniform(-1, 1, n))

    return dict(
        htop=h * f(),
        hbottom=h * f(),
        hfront=3.0 * h * f(),
        hrear=3.0 * h * f(),
        Qz=0.3 * h ** 3 * f(),
        J=0.5 * h ** 4 * f(),
        A_enc=12.0 * h ** 2 * f(),
        spar_thickness=0.05 * h * f(),
    )


WB_UNITS = dict(htop="m", hbottom="m", hfront="m", hrear="m", Qz="m**3", J="m**4", A_enc="m**2", spar_thickness="m",
                nodes="m", disp="m", radius="m", thickness="m")


def _field(fd, nodes):
    from oasv import ref_struct as RS

    n = nodes.shape[0]
    if fd["kind"] == "rigid":
        return RS.rigid_field(nodes, fd["trans"], fd["theta"], fd["pivot"]), None
    if fd["kind"] == "mode":
        ax = nodes[-1] - nodes[0]
        x = ax / np.linalg.norm(ax)
        # two unit vectors normal to the axis, built without the e_x reference vector
        a = np.cross(x, [0.0, 0.0, 1.0])
        if np.linalg.norm(a) < 0.3:
            a = np.cross(x, [0.0, 1.0, 0.0])
        a = a / np.linalg.norm(a)
        b = np.cross(x, a)
        ang = np.radians(fd["kappa_angle"])
        kvec = fd["kappa"] * (np.cos(ang) * a + np.sin(ang) * b)
        d, x, kvec = RS.strain_mode_field(nodes, fd["eps"], kvec, fd["phi"])
        return d, dict(x=x, kvec=kvec)
    rng = np.random.default_rng(int(fd["seed"]))
    return 10.0 ** fd["amp_exp"] * rng.standard_normal((n, 6)), None


EPS = 2.220446049250313e-16


def _recovery_floor(nodes, disp, E, G, radius=None, sec=None):
    """round-off floor of recovering stresses from differences of nodal displacements: 16 eps times the stress the
    same displacement *magnitudes* would give without cancellation (a strain field riding on a large rigid-body
    motion, e.g. the far end of a long bent beam, loses |u| / |delta u| digits in any implementation)."""
    from oasv import ref_struct as RS

    L = float(np.min(RS.element_lengths(nodes)))
    ut = float(np.max(np.abs(disp[:, :3])))
    ur = float(np.max(np.abs(disp[:, 3:])))
    if radius is not None:
        r = float(np.max(radius))
        S = E * 2 * ut / L + (E + G) * r * 2 * ur / L
    else:
        h = float(max(np.max(sec["htop"]), np.max(sec["hbottom"]), np.max(sec["hfront"]), np.max(sec["hrear"])))
        q = float(np.max(sec["Qz"] / (2 * sec["spar_thickness"])))
        tor = float(np.max(sec["J"] / (2 * sec["spar_thickness"] * sec["A_enc"])))
        S = E * 2 * ut / L + E * h * (12 * ut / L ** 2 + 6 * ur / L) * 2 + E * q * (24 * ut / L ** 3 + 12 * ur / L ** 2) + G * tor * 2 * ur / L
    return 16 * EPS * S


def _functionals(surf, inputs):
    from openaerostruct.structures.spatial_beam_functionals import SpatialBeamFunctionals

    return B.run_comp(SpatialBeamFunctionals(surface=surf), inputs, WB_UNITS)


def _failure_checks(out, desc, p, vm, ncol):
    fail = p.get_val("failure")
    sy = desc["yield_"]
    f = vm / sy - 1.0
    if desc["exact"]:
        out.close("failure_exact", fail, f, rtol=4e-16, atol=4e-16)
        out.label("failure=exact")
    else:
        _ks_bounds(out, float(fail[0]), f, 100.0, "failure_ks")
        out.label("failure=KS")


def _ks_bounds(out, ks, f, rho, key):
    fmax = float(np.max(f))
    N = f.size
    slack = 16 * 2.220446049250313e-16 * (abs(fmax) + math.log(N) / rho + 1.0)
    if not math.isfinite(ks):
        out.fail(key + "/nonfinite", "KS = %r for max f = %.6g, N = %d, rho = %g" % (ks, fmax, N, rho))
        return
    out.le(key + "/not_below_max", max(fmax - ks, 0.0), slack)
    out.le(key + "/upper_bound", max(ks - fmax - math.log(N) / rho, 0.0), slack)


# ----------------------------------------------------------------------------------------------------------------
# tube


def verdict_tube(desc):
    from oasv import ref_frame as RF
    from oasv import ref_struct as RS

    out = Outcome()
    bd, fd = desc["beam"], desc["field"]
    nodes = B.polyline(bd)
    ny = nodes.shape[0]
    assert RF.min_angle_to_x(nodes) >= B.MIN_ANGLE - 1e-7
    E, G = desc["E"], desc["E"] * desc["G_over_E"]
    rng = np.random.default_rng(int(desc["sec_seed"]))
    radius = 10.0 ** desc["r_exp"] * 10.0 ** (desc["sec_spread"] * rng.uniform(-1, 1, ny - 1))
    thickness = desc["t_rel"] * radius
    surf = B.beam_surface(ny, bd["kind"] == "sym", E, G, "tube", exact_failure_constraint=bool(desc["exact"]))
    surf["yield"] = desc["yield_"]
    disp, mode = _field(fd, nodes)
    p = _functionals(surf, dict(nodes=nodes, radius=radius, thickness=thickness, disp=disp))
    vm = p.get_val("vonmises").copy()
    out.true("nonnegative", bool(np.all(vm >= 0.0)), "min vonmises %.3e" % vm.min())
    out.close("thickness_intersects", p.get_val("thickness_intersects"), thickness - radius, rtol=1e-15)
    if fd["kind"] == "rigid":
        th = float(np.linalg.norm(fd["theta"]))
        out.le("rigid_body", float(np.max(vm)), 1e-9 * E * th + _recovery_floor(nodes, disp, E, G, radius=radius) + 1e-300)
        out.nontrivial = th > 0
    else:
        ref = RS.tube_vonmises(nodes, radius, disp, E, G)
        sc = float(np.max(ref)) or 1.0
        nf = _recovery_floor(nodes, disp, E, G, radius=radius)
        out.close("tube/closed_form", vm, ref, rtol=TOL, atol=nf, scale=sc)
        if mode is not None:
            # textbook values for the pure modes: sigma = E eps +- E r |kappa|, tau = G r phi'
            kap = float(np.linalg.norm(mode["kvec"]))
            s0 = E * fd["eps"] + E * radius * kap
            s1 = -E * fd["eps"] + E * radius * kap
            tau = G * radius * fd["phi"]
            tb = np.stack([np.sqrt(s0 ** 2 + 3 * tau ** 2), np.sqrt(s1 ** 2 + 3 * tau ** 2)], axis=1)
            out.close("tube/textbook_modes", vm, tb, rtol=1e-9, atol=nf, scale=float(np.max(tb)) or 1.0)
            for nm, v in (("axial", fd["eps"]), ("bending", fd["kappa"]), ("torsion", fd["phi"])):
                if v != 0.0:
                    out.label("mode:" + nm)
        # homogeneity
        k = desc["field"]["k"]
        vk = _functionals(surf, dict(nodes=nodes, radius=radius, thickness=thickness, disp=k * disp)).get_val("vonmises")
        out.close("homogeneity_pos", vk, k * vm, rtol=TOL, atol=k * nf, scale=k * sc)
        vn = _functionals(surf, dict(nodes=nodes, radius=radius, thickness=thickness, disp=-k * disp)).get_val("vonmises")
        out.close("homogeneity_neg_swapped", vn[:, ::-1], k * vm, rtol=TOL, atol=k * nf, scale=k * sc)
        out.nontrivial = bool(np.max(vm) > 0)
    _failure_checks(out, desc, p, vm, 2)
    out.label("field=" + fd["kind"], "kind=" + bd["kind"], "layout=" + bd["layout"], "ny=2" if ny == 2 else "ny>2")
    if ny > 13:
        out.label("ny>13")
    return out


# ----------------------------------------------------------------------------------------------------------------
# wingbox


def _wb_best(nodes, disp, sec, E, G, tssf, vm, sc):
    """smallest discrepancy over the admissible recovery sections / fore-aft senses.  Per element the four outputs must
    be explained by ONE section xi; the fore-aft sense must be the same for the whole case."""
    from oasv import ref_struct as RS

    best = {}
    for s in (-1.0, 1.0):
        refs = np.array([RS.wingbox_vonmises(nodes, disp, sec, E, G, tssf, xi, s) for xi in XIS])  # (nxi, nel, 4)
        err = np.max(np.abs(refs - vm[None]), axis=2)  # (nxi, nel)
        ixi = np.argmin(err, axis=0)
        e_el = err[ixi, np.arange(err.shape[1])]
        best[s] = (float(np.max(e_el)), [XIS[i] for i in ixi])
    return best


def verdict_wingbox(desc):
    from oasv import ref_frame as RF
    from oasv import ref_struct as RS

    out = Outcome()
    bd, fd = desc["beam"], desc["field"]
    nodes = B.polyline(bd)
    ny = nodes.shape[0]
    assert RF.min_angle_to_x(nodes) >= B.MIN_ANGLE - 1e-7
    E, G = desc["E"], desc["E"] * desc["G_over_E"]
    sec = _wingbox_sections(desc, ny - 1)
    tssf = desc["tssf"]
    surf = B.beam_surface(ny, bd["kind"] == "sym", E, G, "wingbox", exact_failure_constraint=bool(desc["exact"]),
                          strength_factor_for_upper_skin=tssf)
    surf["yield"] = desc["yield_"]
    disp, mode = _field(fd, nodes)
    inp = dict(nodes=nodes, disp=disp, **sec)
    p = _functionals(surf, inp)
    vm = p.get_val("vonmises").copy()
    out.true("nonnegative", bool(np.all(vm >= 0.0)), "min vonmises %.3e" % vm.min())
    if fd["kind"] == "rigid":
        th = float(np.linalg.norm(fd["theta"]))
        out.le("rigid_body", float(np.max(vm)), 1e-9 * E * th + _recovery_floor(nodes, disp, E, G, sec=sec) + 1e-300)
        out.nontrivial = th > 0
    else:
        sc = float(np.max(vm)) or 1.0
        best = _wb_best(nodes, disp, sec, E, G, tssf, vm, sc)
        s_fit = min(best, key=lambda s: best[s][0])
        nf = _recovery_floor(nodes, disp, E, G, sec=sec)
        out.le("wingbox/closed_form", best[s_fit][0], TOL * sc + nf)
        out.info["foreaft_sense_fit"] = {str(s): best[s][0] / sc for s in best}
        if mode is not None:
            # textbook values for the pure modes (uniform curvature: the section does not matter)
            x, y, z = RS._triad(nodes[1] - nodes[0])
            kz, ky = float(mode["kvec"] @ z), float(mode["kvec"] @ y)  # d(theta_z)/ds = v'', d(theta_y)/ds = -w''
            ax = E * fd["eps"]
            tor = G * sec["J"] * fd["phi"] / (2 * sec["spar_thickness"] * sec["A_enc"])
            top, bot = E * kz * sec["htop"], -E * kz * sec["hbottom"]
            errs = {}
            for s in (-1.0, 1.0):
                fr, rr = s * E * (-ky) * sec["hfront"], -s * E * (-ky) * sec["hrear"]
                tb = np.stack(
                    [
                        np.sqrt((top + rr + ax) ** 2 + 3 * tor ** 2) / tssf,
                        np.sqrt((bot + fr + ax) ** 2 + 3 * tor ** 2),
                        np.sqrt((fr + ax) ** 2 + 3 * tor ** 2),
                        np.sqrt((rr + ax) ** 2 + 3 * tor ** 2) / tssf,
                    ],
                    axis=1,
                )
                errs[s] = float(np.max(np.abs(tb - vm)))
            out.le("wingbox/textbook_modes", errs[s_fit], 1e-9 * sc + nf)
            for nm, v in (("axial", fd["eps"]), ("bending", fd["kappa"]), ("torsion", fd["phi"])):
                if v != 0.0:
                    out.label("mode:" + nm)
        k = desc["field"]["k"]
        vk = _functionals(surf, dict(inp, disp=k * disp)).get_val("vonmises")
        out.close("homogeneity_pos", vk, k * vm, rtol=TOL, atol=k * nf, scale=k * sc)
        vn = _functionals(surf, dict(inp, disp=-k * disp)).get_val("vonmises")
        out.close("homogeneity_neg", vn, k * vm, rtol=TOL, atol=k * nf, scale=k * sc)
        out.nontrivial = bool(np.max(vm) > 0)
    _failure_checks(out, desc, p, vm, 4)
    out.label("field=" + fd["kind"], "kind=" + bd["kind"], "layout=" + bd["layout"], "ny=2" if ny == 2 else "ny>2")
    if tssf != 1.0:
        out.label("tssf!=1")
    if ny > 13:
        out.label("ny>13")
    return out


# ----------------------------------------------------------------------------------------------------------------
# KS / exact failure, direct


def ks_config(nmax=60):
    return st.fixed_dictionaries(
        dict(
            model=st.sampled_from(["tube", "wingbox"]),
            nel=st.one_of(st.integers(1, 8), st.integers(1, nmax)),
            level_exp=S.fl(0.0, 12.0, 8.0),
            shape=st.sampled_from(["random", "equal", "one_dominant", "zeros", "wide"]),
            seed=st.integers(0, 10 ** 6),
            yield_=S.logfl(6.0, 9.5, 2.0e8),
            rho=st.one_of(st.just(100.0), S.logfl(0.0, 4.0, 100.0)),
            bump_exp=S.fl(-6.0, 1.0, -2.0),
            bump_index=S.fl(0.0, 1.0, 0.0),
        )
    )


def verdict_ks(desc):
    from openaerostruct.structures.failure_exact import FailureExact
    from openaerostruct.structures.failure_ks import FailureKS

    out = Outcome()
    ncol = 2 if desc["model"] == "tube" else 4
    n = desc["nel"]
    rng = np.random.default_rng(int(desc["seed"]))
    lvl = 10.0 ** desc["level_exp"]
    if desc["shape"] == "random":
        vm = lvl * rng.uniform(0, 1, (n, ncol))
    elif desc["shape"] == "equal":
        vm = lvl * np.ones((n, ncol))
    elif desc["shape"] == "one_dominant":
        vm = 1e-3 * lvl * rng.uniform(0, 1, (n, ncol))
        vm[rng.integers(0, n), rng.integers(0, ncol)] = lvl
    elif desc["shape"] == "zeros":
        vm = np.zeros((n, ncol))
    else:
        vm = lvl * 10.0 ** rng.uniform(-12, 0, (n, ncol))
    surf = B.beam_surface(n + 1, True, 7e10, 3e10, desc["model"])
    surf["yield"] = sy = desc["yield_"]
    rho = float(desc["rho"])
    units = {"vonmises": "N/m**2"}
    f = vm / sy - 1.0

    def ks_of(v):
        comp = FailureKS(surface=surf) if rho == 100.0 and desc["seed"] % 2 == 0 else FailureKS(surface=surf, rho=rho)
        return float(B.run_comp(comp, dict(vonmises=v), units).get_val("failure")[0])

    ks = ks_of(vm)
    _ks_bounds(out, ks, f, rho, "ks")
    # monotone in each stress: raise one entry
    idx = int(round(desc["bump_index"] * (vm.size - 1)))
    vm2 = vm.copy().reshape(-1)
    vm2[idx] += 10.0 ** desc["bump_exp"] * max(lvl, 1.0)
    ks2 = ks_of(vm2.reshape(vm.shape))
    if math.isfinite(ks) and math.isfinite(ks2):
        out.le("ks/monotone", max(ks - ks2, 0.0), 16 * 2.220446049250313e-16 * (abs(ks) + 1.0))
    else:
        out.fail("ks/nonfinite", "KS after bump = %r" % ks2)
    fe = B.run_comp(FailureExact(surface=surf), dict(vonmises=vm), units).get_val("failure")
    out.close("failure_exact", fe, f, rtol=4e-16, atol=4e-16)
    out.label("shape=" + desc["shape"], "model=" + desc["model"], "rho=default" if rho == 100.0 else "rho=drawn")
    if float(np.max(f)) * rho > 700.0:
        out.label("exp_would_overflow_unshifted")
    if n > 20:
        out.label("nel>20")
    out.nontrivial = True
    return out


# ----------------------------------------------------------------------------------------------------------------
# layer (b): SpatialBeamAlone end to end


def verdict_alone(desc):
    from oasv import ref_frame as RF
    from oasv import ref_struct as RS
    from oasv.meshes import build_mesh
    from oasv.models import struct_alone_problem
    from props.c10 import _alone_surface

    out = Outcome()
    md = desc["mesh"]
    mesh = build_mesh(md)
    sym = md["kind"] == "left"
    ny = mesh.shape[1]
    root = RF.root_index(ny, sym)
    f = B.nodal_loads(desc["loads"], ny, 0, root=root)
    surf = _alone_surface(desc, mesh, sym)
    surf["exact_failure_constraint"] = bool(desc["exact"])
    surf["yield"] = desc["yield_"]
    if desc["model"] == "wingbox":
        surf["strength_factor_for_upper_skin"] = desc["tssf"]
    prob = struct_alone_problem(surf, loads=f, load_factor=desc["load_factor"])
    prob.run_model()
    nodes, disp, vm = prob.get_val("nodes"), prob.get_val("disp"), prob.get_val("vonmises")
    if RF.min_angle_to_x(nodes) < B.MIN_ANGLE:
        from oasv.core import Discard

        raise Discard("element within 5 deg of the x axis")
    E, G = surf["E"], surf["G"]
    out.true("alone/nonnegative", bool(np.all(vm >= 0)))
    # (a load that produces no stress - e.g. all of it on the clamped node - leaves round-off of 1e-15 Pa: stresses are never
    # judged finer than 1e-6 of the nominal stress largest load / smallest section area)
    chord_ = float(np.max(np.linalg.norm(mesh[-1] - mesh[0], axis=1)))
    f_nom = float(np.max(np.abs(f[:, :3]))) + float(np.max(np.abs(f[:, 3:]))) / chord_
    sc = max(float(np.max(vm)), 1e-6 * f_nom / float(np.min(prob.get_val("A"))))
    if desc["model"] == "tube":
        ref = RS.tube_vonmises(nodes, np.ravel(prob.get_val("radius")), disp, E, G)
        out.close("alone/tube/closed_form", vm, ref, rtol=1e-9, scale=sc)
        out.close("alone/thickness_intersects", np.ravel(prob.get_val("thickness_intersects")), np.ravel(prob.get_val("thickness")) - np.ravel(prob.get_val("radius")), rtol=1e-14)
    else:
        sec = {k: np.ravel(prob.get_val(k)) for k in ("htop", "hbottom", "hfront", "hrear", "Qz", "J", "A_enc", "spar_thickness")}
        best = _wb_best(nodes, disp, sec, E, G, desc["tssf"], vm, sc)
        s_fit = min(best, key=lambda s: best[s][0])
        out.le("alone/wingbox/closed_form", best[s_fit][0], 1e-9 * sc)
    fl = prob.get_val("failure")
    fx = vm / desc["yield_"] - 1.0
    if desc["exact"]:
        out.close("alone/failure_exact", fl, fx, rtol=4e-16, atol=4e-16)
    else:
        _ks_bounds(out, float(fl[0]), fx, 100.0, "alone/failure_ks")
    out.label("model=" + desc["model"], "kind=" + md["kind"], "failure=exact" if desc["exact"] else "failure=KS")
    out.nontrivial = bool(np.max(vm) > 0)
    return out


def alone_config():
    from props.c10 import alone_config as c10_alone

    return st.fixed_dictionaries(
        dict(base=c10_alone(nyh=(2, 4)), exact=st.booleans(), yield_=S.logfl(6.0, 9.5, 2.0e8), tssf=S.fl(0.5, 2.0, 1.0))
    ).map(lambda d: dict(d["base"], exact=d["exact"], yield_=d["yield_"], tssf=d["tssf"]))


# ----------------------------------------------------------------------------------------------------------------
# probe: physical sense of the fore-aft bending stress of the wingbox


def sense_config():
    return st.fixed_dictionaries(
        dict(
            nel=st.integers(1, 4),
            phi=S.fl(-40.0, 40.0, 0.0),  # dihedral of the (unswept) beam axis
            L=S.fl(1.0, 10.0, 5.0),
            P=S.logfl(1.0, 4.0, 1000.0),  # aft tip force
            T_over_P=S.fl(1.0, 200.0, 100.0),  # outboard pull / aft force
            aft=st.sampled_from([1.0, -1.0]),
            h=S.fl(0.05, 0.5, 0.3),
        )
    )


def verdict_sense(desc):
    """Cantilever wingbox beam normal to the x axis, clamped at the root, tip pulled outboard (axial tension N = T) and
    pushed aft (+x) by P.  Beam theory: at the root section the fore-aft bending moment P L stretches the *front* spar
    (the side the tip moves away from) and compresses the rear spar, so with equal spar distances h
        sigma_front = T/A + P L h / I,   sigma_rear = T/A - P L h / I       (I = second moment for fore-aft bending).
    The clamped-end element recovers exactly the root section when the clamp is its second node (left / half wing)."""
    from openaerostruct.structures.vonmises_wingbox import VonMisesWingbox

    out = Outcome()
    nel = desc["nel"]
    ph = np.radians(desc["phi"])
    outb = np.array([0.0, -np.cos(ph), np.sin(ph)])  # outboard direction of the left wing (unswept)
    s = np.linspace(desc["L"], 0.0, nel + 1)
    nodes = s[:, None] * outb[None, :]  # tip ... root (root last, y increasing)
    E, G = 7e10, 3e10
    A1, Iy1, Iz1, J1 = 2e-3, 3e-5, 7e-6, 5e-6
    n1 = nel
    p = B.beam_problem(nodes, [A1] * n1, [Iy1] * n1, [Iz1] * n1, [J1] * n1, E, G, True, "wingbox")
    P = desc["aft"] * desc["P"]
    T = desc["T_over_P"] * desc["P"]
    loads = np.zeros((nel + 1, 6))
    loads[0, :3] = P * np.array([1.0, 0.0, 0.0]) + T * outb
    u = B.solve_loads(p, loads)
    h = desc["h"]
    sec = dict(htop=np.full(n1, 0.1), hbottom=np.full(n1, 0.1), hfront=np.full(n1, h), hrear=np.full(n1, h), Qz=np.zeros(n1),
               J=np.full(n1, J1), A_enc=np.full(n1, 0.1), spar_thickness=np.full(n1, 5e-3))
    surf = B.beam_surface(nel + 1, True, E, G, "wingbox")
    vm = B.run_comp(VonMisesWingbox(surface=surf), dict(nodes=nodes, disp=u, **sec), WB_UNITS).get_val("vonmises")[-1]
    # fore-aft bending is about the local y axis (vertical): second moment Iy
    ax = T / A1
    bend = P * desc["L"] * h / Iy1
    phys = np.array([abs(ax - bend), abs(ax + bend), abs(ax + bend), abs(ax - bend)])  # top+rear, bottom+front, front, rear
    mirr = np.array([abs(ax + bend), abs(ax - bend), abs(ax - bend), abs(ax + bend)])
    sc = ax + abs(bend)
    e_phys = float(np.max(np.abs(vm - phys))) / sc
    e_mirr = float(np.max(np.abs(vm - mirr))) / sc
    out.label("probe=foreaft_sense", "aft" if desc["aft"] > 0 else "forward")
    out.nontrivial = bool(abs(bend) > 1e-6 * ax)
    out.info["rel_err_physical"] = e_phys
    out.info["rel_err_mirrored"] = e_mirr
    if e_phys <= 1e-7:
        out.le("foreaft_sense/physical", e_phys, 1e-7)
    elif e_mirr <= 1e-7:
        out.fail(
            "wingbox/foreaft_bending_sign_reversed",
            "tip pushed %s by %.4g N and pulled outboard by %.4g N: beam theory front/rear spar stresses %.6g / %.6g Pa, "
            "reported %.6g / %.6g Pa (front and rear exchanged; matches the mirrored assignment to %.1e)"
            % ("aft" if P > 0 else "forward", abs(P), T, phys[2], phys[3], vm[2], vm[3], e_mirr),
            e_phys,
            1e-7,
        )
    else:
        out.fail("wingbox/foreaft_other_discrepancy", "matches neither sense: %.2e / %.2e" % (e_phys, e_mirr), min(e_phys, e_mirr), 1e-7)
    return out


_STRESS_DEFAULTS = dict(beam=B.BEAM_DEFAULT, E=7.0e10, G_over_E=0.4, yield_=2.0e8, exact=False, sec_spread=0.0,
                        field=dict(kind="arbitrary", amp_exp=-3.0, k=2.5))

SUBS = [
    Sub("tube_stress", stress_config("tube"), verdict_tube, quick=1280, thorough=30000, defaults=_STRESS_DEFAULTS),
    Sub("wingbox_stress", stress_config("wingbox"), verdict_wingbox, quick=960, thorough=24000, defaults=_STRESS_DEFAULTS),
    Sub("tube_stress_long", stress_config("tube", nel=(13, 59)), verdict_tube, quick=96, thorough=2500, defaults=_STRESS_DEFAULTS),
    Sub("wingbox_stress_long", stress_config("wingbox", nel=(13, 59)), verdict_wingbox, quick=64, thorough=2000, defaults=_STRESS_DEFAULTS),
    Sub("ks_aggregation", ks_config(60), verdict_ks, quick=3200, thorough=80000,
        defaults=dict(model="tube", nel=1, level_exp=8.0, shape="random", yield_=2.0e8, rho=100.0)),
    Sub("ks_aggregation_large", ks_config(500), verdict_ks, quick=320, thorough=8000),
    Sub("alone_functionals", alone_config(), verdict_alone, quick=384, thorough=10000),
    Sub("wingbox_foreaft_sense_probe", sense_config(), verdict_sense, quick=32, thorough=200),
]
