"""Deterministic expansion of JSON-able mesh descriptors into (nx, ny, 3) lifting-surface meshes.

Every mesh has streamwise sections (constant y along a chordwise line), strictly increasing x chordwise and strictly
increasing y spanwise -- the form every OpenAeroStruct mesh producer yields.

side descriptor (half wing, measured from the root outwards):
    b        half span (> 0)
    chord    root chord
    sweep    leading-edge sweep, deg
    taper    tip chord / root chord
    dihedral deg
    twist    tip twist (linear from 0 at root), deg, positive = leading edge up (rotation about the LE)
    camber   max camber / chord (parabolic)
    winglet  0 or fraction of the half span after which the dihedral becomes `winglet_dih`
mesh descriptor:
    kind     'left' (symmetric left half, root = last column, y<=0), 'right' (symmetric right half, root first),
             'full' (mirror-symmetric full span), 'asym' (full span, different right side -> key 'right')
    nx, nyh  chordwise nodes, spanwise nodes per half (full span: ny = 2*nyh-1, odd)
    span_blend, chord_blend   0 = uniform, 1 = cosine spacing
    root_twist   built-in twist at root (deg), root_x/root_y/root_z offsets (root_y must be 0 for kinds 'left'/'right'
             unless the off-plane class is wanted)
    noise_amp (fraction of local panel size, <= 0.03) , noise_seed
"""
import numpy as np

SIDE_DEFAULT = dict(b=5.0, chord=1.0, sweep=0.0, taper=1.0, dihedral=0.0, twist=0.0, camber=0.0, winglet=0.0,
                    winglet_dih=60.0)
MESH_DEFAULT = dict(kind="left", nx=2, nyh=3, span_blend=0.0, chord_blend=0.0, root_twist=0.0, root_x=0.0, root_y=0.0,
                    root_z=0.0, noise_amp=0.0, noise_seed=0, side=dict(SIDE_DEFAULT))


def _stations(n, blend):
    lin = np.linspace(0.0, 1.0, n)
    cos = 0.5 * (1.0 - np.cos(np.pi * lin))
    return (1.0 - blend) * lin + blend * cos


def _half(side, nx, nyh, span_blend, chord_blend, root_twist):
    """returns array (nx, nyh, 3) with station 0 at the root (y=0) and station nyh-1 at the tip (y=+b)."""
    s = dict(SIDE_DEFAULT)
    s.update(side)
    # root -> tip stations; cosine blend clusters towards the tip (use half-cosine)
    lin = np.linspace(0.0, 1.0, nyh)
    cosd = np.sin(0.5 * np.pi * lin)
    eta = (1.0 - span_blend) * lin + span_blend * cosd
    xi = _stations(nx, chord_blend)
    b = s["b"]
    y = b * eta
    xle = np.tan(np.radians(s["sweep"])) * y
    c = s["chord"] * (1.0 - (1.0 - s["taper"]) * eta)
    z = np.tan(np.radians(s["dihedral"])) * y
    if s["winglet"] > 0.0:
        y0 = s["winglet"] * b
        out = y > y0
        z = np.where(out, np.tan(np.radians(s["dihedral"])) * y0 + np.tan(np.radians(s["winglet_dih"])) * (y - y0), z)
    tw = np.radians(root_twist + s["twist"] * eta)
    m = np.zeros((nx, nyh, 3))
    for j in range(nyh):
        xloc = xi * c[j]
        zc = s["camber"] * 4.0 * xi * (1.0 - xi) * c[j]
        m[:, j, 0] = xle[j] + xloc * np.cos(tw[j]) + zc * np.sin(tw[j])
        m[:, j, 1] = y[j]
        m[:, j, 2] = z[j] - xloc * np.sin(tw[j]) + zc * np.cos(tw[j])
    return m


def _noise(m, amp, seed):
    if amp == 0.0:
        return m
    nx, ny, _ = m.shape
    rng = np.random.default_rng(int(seed))
    # smooth bounded field in [-1, 1]: low-order cosines in the index coordinates
    I, J = np.meshgrid(np.linspace(0, 1, nx), np.linspace(0, 1, ny), indexing="ij")
    out = m.copy()
    dx = np.min(np.diff(m[:, :, 0], axis=0)) if nx > 1 else 1.0
    for comp, scale in ((0, dx), (2, dx)):
        a = rng.uniform(-1, 1, size=4)
        ph = rng.uniform(0, 2 * np.pi, size=4)
        f = (a[0] * np.cos(2 * np.pi * I + ph[0]) + a[1] * np.cos(2 * np.pi * J + ph[1])
             + a[2] * np.cos(3 * np.pi * (I + J) + ph[2]) + a[3] * np.cos(np.pi * (I - 2 * J) + ph[3])) / 4.0
        out[:, :, comp] += amp * scale * f
    return out


def build_mesh(d):
    dd = dict(MESH_DEFAULT)
    dd.update(d)
    nx, nyh = int(dd["nx"]), int(dd["nyh"])
    half = _half(dd["side"], nx, nyh, dd["span_blend"], dd["chord_blend"], dd["root_twist"])
    kind = dd["kind"]
    if kind == "right":
        m = half
    else:
        left = half[:, ::-1, :].copy()
        left[:, :, 1] *= -1.0
        if kind == "left":
            m = left
        else:
            rside = dd.get("right") if kind == "asym" else None
            right = half if rside is None else _half(rside, nx, nyh, dd["span_blend"], dd["chord_blend"], dd["root_twist"])
            if rside is not None:
                # share the root section exactly: rescale so that the root column coincides
                right = right.copy()
                right[:, 0, :] = left[:, -1, :]
            m = np.concatenate([left, right[:, 1:, :]], axis=1)
    m = _noise(m, float(dd["noise_amp"]), dd["noise_seed"])
    if kind in ("left", "right") and dd["root_y"] == 0.0:
        # the symmetry-plane column stays exactly in the plane
        j = -1 if kind == "left" else 0
        m[:, j, 1] = 0.0
    m = m + np.array([dd["root_x"], dd["root_y"], dd["root_z"]])
    return np.ascontiguousarray(m)


def mirror_mesh(m):
    """mirror image about the x-z plane with reversed spanwise ordering (y stays increasing)"""
    r = m[:, ::-1, :].copy()
    r[:, :, 1] *= -1.0
    return r


def full_from_half(m):
    """full-span mesh from a symmetric half (left: root last; right: root first); ny_full = 2 ny - 1"""
    left = abs(m[0, 0, 1]) > abs(m[0, -1, 1])
    mir = mirror_mesh(m)
    if left:
        return np.concatenate([m, mir[:, 1:, :]], axis=1)
    return np.concatenate([mir, m[:, 1:, :]], axis=1)


def mesh_ok(m, min_rel=1e-3):
    """well-formedness used as a generator post-condition (never as a filter that hides failures)"""
    dx = np.diff(m[:, :, 0], axis=0)
    dy = np.diff(m[:, :, 1], axis=1)
    return bool(np.all(dx > 0) and np.all(dy > 0) and np.all(np.isfinite(m)))
