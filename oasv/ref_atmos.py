"""Independent analytic U.S. Standard Atmosphere 1976 (0-47 km geopotential), SI units.

Written from the standard's definition: layered constant lapse rates in geopotential altitude, hydrostatic integration
of the ideal gas, a = sqrt(gamma R T), Sutherland viscosity.  Shares no code or data with openaerostruct.

The table shipped with OpenAeroStruct (source: digitaldutch.com calculator) treats its altitude column as geopotential
altitude (agreement 1e-6 in T, 6e-6 in P; with a geometric->geopotential conversion the disagreement would be 2 % at
100 kft), and lists viscosity with 3 significant digits following Sutherland's law in the form
mu = mu0 (T0 + S)/(T + S) (T/T0)^1.5 with mu0 = 1.827e-5 Pa s, T0 = 291.15 K, S = 120 K (the 1976 document's own constants,
beta = 1.458e-6, S = 110.4 K, differ from that by 0.7-1.4 %; both are offered here)."""
import numpy as np

FT = 0.3048
G0 = 9.80665
R_AIR = 8314.32 / 28.9644  # J/(kg K), the standard's value 287.05287
GAMMA = 1.4
_HB = np.array([0.0, 11000.0, 20000.0, 32000.0, 47000.0])
_LB = np.array([-0.0065, 0.0, 0.0010, 0.0028])


def _bases():
    Tb = [288.15]
    Pb = [101325.0]
    for i in range(3):
        dH = _HB[i + 1] - _HB[i]
        if _LB[i] == 0.0:
            Tb.append(Tb[i])
            Pb.append(Pb[i] * np.exp(-G0 * dH / (R_AIR * Tb[i])))
        else:
            Tn = Tb[i] + _LB[i] * dH
            Tb.append(Tn)
            Pb.append(Pb[i] * (Tn / Tb[i]) ** (-G0 / (_LB[i] * R_AIR)))
    return np.array(Tb), np.array(Pb)


_TB, _PB = _bases()


def us76(h_ft, sutherland="table"):
    """h_ft: geopotential altitude in feet (scalar or array) -> dict of SI arrays T [K], P [Pa], rho, a [m/s], mu [Pa s]"""
    H = np.atleast_1d(np.asarray(h_ft, float)) * FT
    if np.any(H > _HB[-1]) or np.any(H < -5000.0):
        raise ValueError("altitude outside the modelled layers")
    i = np.clip(np.searchsorted(_HB, H, side="right") - 1, 0, 3)
    L = _LB[i]
    dH = H - _HB[i]
    T = _TB[i] + L * dH
    iso = L == 0.0
    Lsafe = np.where(iso, 1.0, L)
    P = np.where(iso, _PB[i] * np.exp(-G0 * dH / (R_AIR * _TB[i])), _PB[i] * (T / _TB[i]) ** (-G0 / (Lsafe * R_AIR)))
    rho = P / (R_AIR * T)
    a = np.sqrt(GAMMA * R_AIR * T)
    if sutherland == "table":
        mu = 1.827e-5 * (291.15 + 120.0) / (T + 120.0) * (T / 291.15) ** 1.5
    else:
        mu = 1.458e-6 * T ** 1.5 / (T + 110.4)
    return dict(T=T, P=P, rho=rho, a=a, mu=mu)


_MAXSLOPE = {}


def max_slope(lo_ft=-1000.0, hi_ft=150000.0):
    """max |d f / d h| per foot over [lo, hi] for every quantity (dense sampling of the analytic model, 1 ft steps)"""
    key = (lo_ft, hi_ft)
    if key not in _MAXSLOPE:
        h = np.arange(lo_ft, hi_ft + 0.5, 1.0)
        ref = us76(h)
        _MAXSLOPE[key] = {k: float(np.max(np.abs(np.diff(v)))) for k, v in ref.items()}
    return _MAXSLOPE[key]
