"""C11  Load/displacement transfer: force & moment conservation, rigid motion exactness (DESIGN.md section 4, C11)."""
import numpy as np
from hypothesis import strategies as st

from oasv import strategies as S
from oasv.core import Outcome, Sub
from oasv.meshes import build_mesh
from oasv.models import aerostruct_problem, struct_surface

RULE = (
    "Hypothesis draws a lifting-surface mesh (symmetric left/right halves, mirror-symmetric and asymmetric full span; "
    "nx 2-6, ny 2-11; sweep, taper, dihedral, twist, camber, winglet, spacing blends, noise), an extra node-wise "
    "deformation (so that deformed sections are no longer streamwise), a spar (tube: fem_origin in [0,1] incl. 0, 0.25, "
    "0.35, 1; wingbox: front/rear spar abscissae and heights -> height-weighted spar location), a panel force field "
    "(dense / single panel / uniform, amplitude 1e-2..1e4 N expanded from a drawn integer seed) and a reference point.  "
    "Sub load_conservation feeds LoadTransfer, MeshPointForces and ComputeNodes as one-component problems and compares "
    "sum F and sum M about the drawn point with the panel forces placed at the quarter-chord midpoints of the deformed "
    "mesh (nodal loads sit on the spar line of the deformed mesh).  Sub rigid_motion feeds ComputeNodes -> "
    "DisplacementTransferGroup with zero displacement (bitwise), uniform or per-node translations (1 ulp) and rotation "
    "vectors eps*theta (uniform or per node, |theta_i| <= 0.3 rad, eps in {1, 1e-2, 1e-3, 1e-4}) and checks the "
    "first-order law def = mesh + t + eps theta x (mesh - node) within the derived remainder bound, plus the fixed point "
    "(the spar point of every deformed section is node + t).  Sub coupled_point runs a converged AerostructPoint and "
    "applies the same identities to coupled.<s>_loads.loads / aero_states.<s>_sec_forces / <s>_mesh_point_forces / "
    "coupled.<s>.def_mesh / disp.  non-trivial: load subs need sum|f| > 0 and a moment arm > 0; rigid_motion needs a "
    "non-zero translation and a non-zero rotation; distinct = descriptor digest (6 significant digits)."
)
ASSUMPTIONS = [
    "conservation tolerance: force 1e-12*sum|f|, moment 1e-10*sum|f|*max arm from the reference point (measured floor "
    "~1e-15 of that scale)",
    "structural nodes of a wingbox surface sit at the spar-height-weighted mean of the first and last abscissae of "
    "data_x_upper (the convention shared by ComputeNodes, LoadTransfer and the plotting utilities); tube: fem_origin",
    "rotation remainder bound 2 eps^2 |theta|^2 |arm| per mesh point: T - [eps theta]x has diagonal entries "
    "(cos a - 1) + (cos b - 1) (|.| <= eps^2|theta|^2/2) and off-diagonals sin c - c (|.| <= |c|^3/6), hence "
    "|(T - [eps theta]x) r| <= eps^2|theta|^2|r| for eps|theta| <= 1; the factor 2 is margin, so the ratio on the "
    "unchanged tree is ~0.25-0.5 by construction (it is a mathematical bound, not a noise floor)",
    "translation exactness: 1 ulp of max(|mesh| + |t|); zero displacement: bitwise",
    "coupled_point: cases whose default NonlinearBlockGS does not converge are inconclusive (AnalysisError)",
]

EPS_LADDER = (1.0, 1e-2, 1e-3, 1e-4)


# ----------------------------------------------------------------------------------------------------------------
# descriptors


def spar():
    tube = st.fixed_dictionaries(dict(model=st.just("tube"), fem_origin=S.fl(0.0, 1.0, 0.35, 0.0, 1.0, 0.25)))
    wingbox = st.fixed_dictionaries(
        dict(
            model=st.just("wingbox"),
            x0=S.fl(0.0, 0.45, 0.1, 0.0),
            x1=S.fl(0.55, 1.0, 0.6, 1.0),
            h0=S.fl(0.02, 0.2, 0.1),
            h1=S.fl(0.02, 0.2, 0.06),
            npts=st.integers(2, 12),
            yoff=S.fl(-0.05, 0.05, 0.0),
        )
    )
    return st.one_of(tube, wingbox)


def forces():
    return st.fixed_dictionaries(
        dict(
            mode=st.sampled_from(["dense", "dense", "single", "uniform"]),
            seed=st.integers(0, 10 ** 6),
            amp=S.logfl(-2.0, 4.0, 1e4),
            fi=st.floats(0.0, 0.999),
            fj=st.floats(0.0, 0.999),
        )
    )


def mesh_strategy(nx=(2, 6), nyh=(2, 6)):
    return S.mesh(kinds=("left", "right", "full", "asym"), nx=nx, nyh=nyh)


def deform():
    return st.fixed_dictionaries(dict(amp=st.sampled_from([0.0, 0.1, 0.3]), seed=st.integers(0, 10 ** 6)))


def load_config(nx=(2, 6), nyh=(2, 6)):
    return st.fixed_dictionaries(
        dict(
            mesh=mesh_strategy(nx, nyh),
            deform=deform(),
            spar=spar(),
            forces=forces(),
            point=st.lists(S.fl(-20.0, 20.0, 0.0), min_size=3, max_size=3),
            two_surfaces=st.booleans(),
            units=unit_choice(),
        )
    )


def motion():
    return st.fixed_dictionaries(
        dict(
            t_mode=st.sampled_from(["uniform", "pernode"]),
            t=st.lists(S.fl(-12.0, 12.0, 1.0), min_size=3, max_size=3),
            t_seed=st.integers(0, 10 ** 6),
            r_mode=st.sampled_from(["uniform", "pernode", "axis_x", "axis_y", "axis_z"]),
            theta=st.lists(S.fl(-0.3, 0.3, 0.1), min_size=3, max_size=3),
            r_seed=st.integers(0, 10 ** 6),
        )
    )


def motion_config(nx=(2, 6), nyh=(2, 6)):
    return st.fixed_dictionaries(dict(mesh=mesh_strategy(nx, nyh), spar=spar(), motion=motion(), units=unit_choice()))


def coupled_config():
    mesh = S.mesh(kinds=("left", "right", "full", "asym"), nx=(2, 3), nyh=(2, 4), winglet=False, max_twist=4.0)
    return st.fixed_dictionaries(
        dict(
            mesh=mesh,
            spar=spar(),
            alpha=S.fl(-6.0, 8.0, 3.0),
            v=S.fl(20.0, 70.0, 50.0),
            point=st.lists(S.fl(-20.0, 20.0, 0.0), min_size=3, max_size=3),
            compressible=st.booleans(),
            Mach=S.fl(0.1, 0.85, 0.2, 0.8),
        )
    )


def export_config():
    """aero-only analysis points (1-2 surfaces, incompressible or compressible, sideslip): the exported mesh-node forces
    must carry the same resultant as the sectional forces of the same analysis"""
    return st.fixed_dictionaries(
        dict(
            surfaces=S.aero_config(max_surf=2, nx=(2, 4), nyh=(2, 4), max_panels=30),
            flow=S.flow(beta=True, rot=False, mach=(0.05, 0.9)),
            compressible=st.booleans(),
            point=st.lists(S.fl(-20.0, 20.0, 0.0), min_size=3, max_size=3),
        )
    )


# ----------------------------------------------------------------------------------------------------------------
# deterministic expansion


def wingbox_data(sp):
    n = int(sp["npts"])
    x = np.linspace(sp["x0"], sp["x1"], n)
    s = np.linspace(0.0, 1.0, n)
    h = (1.0 - s) * sp["h0"] + s * sp["h1"] + 0.03 * np.sin(np.pi * s)
    mid = sp["yoff"] + 0.01 * np.sin(np.pi * s)
    return dict(data_x_upper=x.copy(), data_x_lower=x.copy(), data_y_upper=mid + 0.5 * h, data_y_lower=mid - 0.5 * h)


def spar_fraction(sp):
    """independent statement of the normalised chordwise spar location"""
    if sp["model"] == "tube":
        return float(sp["fem_origin"])
    return float((sp["x0"] * sp["h0"] + sp["x1"] * sp["h1"]) / (sp["h0"] + sp["h1"]))


def make_surface(name, mesh, kind, sp, **kw):
    sym = kind in ("left", "right")
    if sp["model"] == "tube":
        return struct_surface(name, mesh, sym, model="tube", fem_origin=float(sp["fem_origin"]), **kw)
    kw.update(wingbox_data(sp))
    return struct_surface(name, mesh, sym, model="wingbox", **kw)


def deformed(mesh, d):
    if d["amp"] == 0.0:
        return mesh.copy()
    rng = np.random.default_rng(int(d["seed"]))
    h = min(float(np.min(np.linalg.norm(np.diff(mesh, axis=0), axis=2))), float(np.min(np.linalg.norm(np.diff(mesh, axis=1), axis=2))))
    return mesh + d["amp"] * h * rng.uniform(-1.0, 1.0, size=mesh.shape)


def force_field(fd, nx, ny):
    rng = np.random.default_rng(int(fd["seed"]))
    dense = rng.uniform(-1.0, 1.0, size=(nx - 1, ny - 1, 3))
    if fd["mode"] == "dense":
        F = dense
    elif fd["mode"] == "uniform":
        F = np.broadcast_to(dense[0, 0], dense.shape).copy()
    else:
        F = np.zeros_like(dense)
        i = min(int(fd["fi"] * (nx - 1)), nx - 2)
        j = min(int(fd["fj"] * (ny - 1)), ny - 2)
        F[i, j] = dense[i, j]
    return fd["amp"] * F


def unit_choice():
    """units in which the user declares the independent variables feeding a component (same physical values; OpenMDAO
    converts to the units the component declares).  None = everything SI."""
    L = st.sampled_from(["m", "ft", "inch", "cm"])
    return st.one_of(st.none(), st.none(), st.fixed_dictionaries(dict(
        mesh=L, def_mesh=L, nodes=L, disp=L, sec_forces=st.sampled_from(["N", "lbf", "kN"]))))


def run_comp(comp, _units=None, **vals):
    """one-component problem; inputs come from an IndepVarComp.  `vals` are SI; with `_units` the user declares (and
    fills) his variables in other units of the same dimension"""
    import openmdao.api as om
    from openmdao.utils.units import convert_units

    p = om.Problem(reports=False)
    ivc = om.IndepVarComp()
    for k, v in vals.items():
        si = "N" if k.endswith("sec_forces") else "m"
        u = (_units or {}).get("sec_forces" if k.endswith("sec_forces") else k, si)
        ivc.add_output(k, val=convert_units(np.array(v, float), si, u), units=u)
    p.model.add_subsystem("ivc", ivc, promotes=["*"])
    p.model.add_subsystem("c", comp, promotes=["*"])
    p.setup()
    p.run_model()
    return p


# ----------------------------------------------------------------------------------------------------------------
# oracles (first principles)


def quarter_chord_midpoints(m):
    """panel quarter-chord midpoints: mean of the two quarter-chord points of the panel's side edges"""
    q = m[:-1] + 0.25 * (m[1:] - m[:-1])  # (nx-1, ny, 3) quarter chord of each chordwise segment
    return 0.5 * (q[:, :-1] + q[:, 1:])


def spar_line(m, w):
    return m[0] + w * (m[-1] - m[0])


def total_moment(points, forces, p, moments=None):
    M = np.sum(np.cross(points.reshape(-1, 3) - p, forces.reshape(-1, 3)), axis=0)
    if moments is not None:
        M = M + moments.reshape(-1, 3).sum(axis=0)
    return M


def check_conservation(out, prefix, def_mesh, F, p, w, loads=None, mpf=None):
    a = quarter_chord_midpoints(def_mesh)
    sumf = float(np.sum(np.abs(F)))
    Fref = F.reshape(-1, 3).sum(axis=0)
    Mref = total_moment(a, F, p)
    arm = max(float(np.max(np.linalg.norm(def_mesh.reshape(-1, 3) - p, axis=1))), 1e-300)
    ftol = 1e-12 * sumf
    mtol = 1e-10 * sumf * arm
    if loads is not None:
        s = spar_line(def_mesh, w)
        out.le(prefix + "loads/force", np.max(np.abs(loads[:, :3].sum(axis=0) - Fref)), ftol)
        out.le(prefix + "loads/moment", np.max(np.abs(total_moment(s, loads[:, :3], p, loads[:, 3:]) - Mref)), mtol)
    if mpf is not None:
        out.le(prefix + "mesh_point_forces/force", np.max(np.abs(mpf.reshape(-1, 3).sum(axis=0) - Fref)), ftol)
        out.le(prefix + "mesh_point_forces/moment", np.max(np.abs(total_moment(def_mesh, mpf, p) - Mref)), mtol)
    return sumf, arm


def rigid_reference(mesh, nodes, t, theta):
    """first-order rigid motion of every chordwise section j about its node: mesh + t_j + theta_j x (mesh - node_j)"""
    arm = mesh - nodes[None, :, :]
    return mesh + t[None, :, :] + np.cross(np.broadcast_to(theta[None, :, :], arm.shape), arm), arm


def check_rotation(out, key, def_mesh, mesh, nodes, t, theta):
    ref, arm = rigid_reference(mesh, nodes, t, theta)
    err = np.linalg.norm(def_mesh - ref, axis=2)
    th2 = np.sum(theta ** 2, axis=1)[None, :]
    scale = float(np.max(np.abs(mesh))) + float(np.max(np.abs(t)))
    bound = 2.0 * th2 * np.linalg.norm(arm, axis=2) + 1e-14 * scale
    out.le(key, float(np.max(err / bound)), 1.0)


def label_common(out, md, sp, mesh):
    out.label("kind=" + md["kind"], "model=" + sp["model"])
    w = spar_fraction(sp)
    if w in (0.0, 1.0):
        out.label("spar_at_edge")
    if md["nx"] > 2:
        out.label("nx>2")
    if mesh.shape[1] == 2:
        out.label("ny=2")


# ----------------------------------------------------------------------------------------------------------------
# verdicts


def verdict_loads(desc):
    from openaerostruct.aerodynamics.mesh_point_forces import MeshPointForces
    from openaerostruct.structures.compute_nodes import ComputeNodes
    from openaerostruct.transfer.load_transfer import LoadTransfer

    out = Outcome()
    md, sp = desc["mesh"], desc["spar"]
    mesh = build_mesh(md)
    dm = deformed(mesh, desc["deform"])
    nx, ny, _ = mesh.shape
    F = force_field(desc["forces"], nx, ny)
    p = np.array(desc["point"], float)
    w = spar_fraction(sp)
    surf = make_surface("wing", mesh, md["kind"], sp)

    U = desc.get("units")
    if U:
        out.label("user_units")
    loads = run_comp(LoadTransfer(surface=surf), U, def_mesh=dm, sec_forces=F).get_val("loads").copy()
    nodes = run_comp(ComputeNodes(surface=surf), U, mesh=dm).get_val("nodes").copy()
    surfs = [surf]
    vals = {"wing_sec_forces": F}
    if desc["two_surfaces"]:
        # a second surface of a different shape in the same component (forces must not leak between surfaces)
        m2 = np.ascontiguousarray(mesh[: max(2, nx - 1), : max(2, ny - 1)])
        surfs = [make_surface("tail", m2, md["kind"], sp), surf]
        vals["tail_sec_forces"] = -2.0 * F[: m2.shape[0] - 1, : m2.shape[1] - 1]
        out.label("mpf_two_surfaces")
    pm = run_comp(MeshPointForces(surfaces=surfs), U, **vals)
    mpf = pm.get_val("wing_mesh_point_forces").copy()

    sumf, arm = check_conservation(out, "", dm, F, p, w, loads=loads, mpf=mpf)
    if desc["two_surfaces"]:
        m2 = surfs[0]["mesh"]
        check_conservation(out, "second/", dm[: m2.shape[0], : m2.shape[1]], vals["tail_sec_forces"], p, w,
                           mpf=pm.get_val("tail_mesh_point_forces").copy())
    out.close("nodes/definition", nodes, spar_line(dm, w), rtol=4e-15, scale=float(np.max(np.abs(dm))) + 1e-300)

    label_common(out, md, sp, mesh)
    out.label("forces=" + desc["forces"]["mode"])
    out.label("deformed" if desc["deform"]["amp"] > 0 else "undeformed")
    out.nontrivial = bool(sumf > 0.0 and arm > 0.0)
    return out


def motion_fields(mo, ny):
    t = np.tile(np.array(mo["t"], float), (ny, 1))
    if mo["t_mode"] == "pernode":
        rng = np.random.default_rng(int(mo["t_seed"]))
        t = t * rng.uniform(-1.0, 1.0, size=(ny, 3))
    th = np.tile(np.array(mo["theta"], float), (ny, 1))
    if mo["r_mode"] == "pernode":
        rng = np.random.default_rng(int(mo["r_seed"]))
        th = th * rng.uniform(-1.0, 1.0, size=(ny, 3))
    elif mo["r_mode"].startswith("axis_"):
        k = "xyz".index(mo["r_mode"][-1])
        keep = np.zeros(3)
        keep[k] = 1.0
        th = th * keep
    return t, th


def verdict_motion(desc):
    from openaerostruct.structures.compute_nodes import ComputeNodes
    from openaerostruct.transfer.displacement_transfer_group import DisplacementTransferGroup

    out = Outcome()
    md, sp, mo = desc["mesh"], desc["spar"], desc["motion"]
    mesh = build_mesh(md)
    ny = mesh.shape[1]
    w = spar_fraction(sp)
    surf = make_surface("wing", mesh, md["kind"], sp)
    U = desc.get("units")
    if U:
        out.label("user_units")
    nodes = run_comp(ComputeNodes(surface=surf), U, mesh=mesh).get_val("nodes").copy()
    nodes_ref = spar_line(mesh, w)
    scale = float(np.max(np.abs(mesh)))
    out.close("nodes/definition", nodes, nodes_ref, rtol=4e-15, scale=scale + 1e-300)

    def transfer(disp):
        return run_comp(DisplacementTransferGroup(surface=surf), U, mesh=mesh, nodes=nodes, disp=disp).get_val("def_mesh").copy()

    t, th = motion_fields(mo, ny)
    # zero displacement: bitwise
    d0 = transfer(np.zeros((ny, 6)))
    if U:
        # unit conversion there and back costs an ulp or two of the coordinates
        out.le("zero_disp/bitwise", np.max(np.abs(d0 - mesh)), 9e-16 * scale)
    else:
        out.true("zero_disp/bitwise", np.array_equal(d0, mesh), "max|def_mesh-mesh| = %.3e at zero displacement" % np.max(np.abs(d0 - mesh)))
    # pure translation (uniform or per chordwise section)
    disp = np.zeros((ny, 6))
    disp[:, :3] = t
    dt = transfer(disp)
    tscale = scale + float(np.max(np.abs(t)))
    out.le("translation/exact", np.max(np.abs(dt - (mesh + t[None, :, :]))), (1.2e-15 if U else 2.3e-16) * tscale)
    # rotations eps*theta, superposed on the translation
    for eps in EPS_LADDER:
        disp = np.zeros((ny, 6))
        disp[:, :3] = t
        disp[:, 3:] = eps * th
        dr = transfer(disp)
        check_rotation(out, "rotation/first_order_eps=%g" % eps, dr, mesh, nodes_ref, t, eps * th)
        # the structural node is the fixed point of the section's rotation
        out.le("rotation/node_fixed_point", np.max(np.abs(spar_line(dr, w) - (nodes_ref + t))), 1e-14 * tscale)

    label_common(out, md, sp, mesh)
    out.label("t=" + mo["t_mode"], "r=" + ("axis" if mo["r_mode"].startswith("axis") else mo["r_mode"]))
    out.nontrivial = bool(np.max(np.abs(t)) > 0.0 and np.max(np.abs(th)) > 0.0)
    return out


def verdict_coupled(desc):
    out = Outcome()
    md, sp = desc["mesh"], desc["spar"]
    mesh0 = build_mesh(md)
    # stiff material: the generator must stay inside the convergent couplings (DESIGN section 2)
    surf = make_surface("wing", mesh0, md["kind"], sp, E=3.0e11, G=1.2e11)
    prob = aerostruct_problem([surf], flow=dict(alpha=desc["alpha"], v=desc["v"], Mach=desc.get("Mach", 0.2), rho=1.0),
                              compressible=bool(desc.get("compressible", False)))
    if desc.get("compressible"):
        out.label("compressible")
    from oasv.models import run_coupled

    run_coupled(prob)
    C = "AS_point_0.coupled."
    mesh = prob.get_val("wing.mesh").copy()
    nodes = prob.get_val("wing.nodes").copy()
    dm = prob.get_val(C + "wing.def_mesh").copy()
    disp = prob.get_val(C + "wing.disp").copy()
    F = prob.get_val(C + "aero_states.wing_sec_forces").copy()
    loads = prob.get_val(C + "wing_loads.loads").copy()
    mpf = prob.get_val(C + "aero_states.wing_mesh_point_forces").copy()
    w = spar_fraction(sp)
    p = np.array(desc["point"], float)
    sumf, _ = check_conservation(out, "coupled/", dm, F, p, w, loads=loads, mpf=mpf)
    scale = float(np.max(np.abs(mesh)))
    out.close("coupled/nodes", nodes, spar_line(mesh, w), rtol=1e-14, scale=scale)
    t, th = disp[:, :3], disp[:, 3:]
    check_rotation(out, "coupled/def_mesh_first_order", dm, mesh, spar_line(mesh, w), t, th)
    out.le("coupled/node_fixed_point", np.max(np.abs(spar_line(dm, w) - (spar_line(mesh, w) + t))),
           1e-13 * (scale + float(np.max(np.abs(t)))))
    label_common(out, md, sp, mesh)
    moved = float(np.max(np.abs(dm - mesh)))
    if moved > 1e-3 * float(np.max(mesh[:, :, 1]) - np.min(mesh[:, :, 1])):
        out.label("deflection>0.1%span")
    out.nontrivial = bool(sumf > 0.0 and moved > 0.0)
    return out


def verdict_export(desc):
    from oasv.layouts import place_surfaces, symmetry_of
    from oasv.models import aero_direct, aero_surface

    out = Outcome()
    fl = dict(desc["flow"])
    syms = [symmetry_of(sd["mesh"]) for sd in desc["surfaces"]]
    if any(syms):
        fl["beta"] = 0.0
    meshes = place_surfaces(desc["surfaces"], fl["alpha"])
    surfaces = [aero_surface("s%d" % k, m, syms[k]) for k, m in enumerate(meshes)]
    prob = aero_direct(surfaces, fl, compressible=desc["compressible"])
    prob.run_model()
    p = np.array(desc["point"], float)
    tot = 0.0
    for k, m in enumerate(meshes):
        F = prob.get_val("aero_point_0.aero_states.s%d_sec_forces" % k).copy()
        mpf = prob.get_val("aero_point_0.aero_states.s%d_mesh_point_forces" % k).copy()
        sumf, _ = check_conservation(out, "export/", m, F, p, 0.35, mpf=mpf)
        tot += sumf
    out.label("nsurf=%d" % len(meshes))
    out.label("compressible" if desc["compressible"] else "incompressible")
    if fl.get("beta", 0.0) != 0:
        out.label("sideslip")
    out.nontrivial = bool(tot > 0.0)
    return out


MESH_DEF = dict(kind="left", nx=2, nyh=2, span_blend=0.0, chord_blend=0.0, root_twist=0.0, root_x=0.0, root_y=0.0, root_z=0.0,
                noise_amp=0.0, noise_seed=0,
                side=dict(b=5.0, chord=1.0, sweep=0.0, taper=1.0, dihedral=0.0, twist=0.0, camber=0.0, winglet=0.0,
                          winglet_dih=60.0))
SPAR_DEF = dict(model="tube", fem_origin=0.35)

SUBS = [
    Sub("load_conservation", load_config(), verdict_loads, quick=3200, thorough=80000,
        defaults=dict(mesh=MESH_DEF, deform=dict(amp=0.0, seed=0), spar=SPAR_DEF,
                      forces=dict(mode="single", seed=0, amp=1.0, fi=0.0, fj=0.0), point=[0.0, 0.0, 0.0], two_surfaces=False)),
    Sub("rigid_motion", motion_config(), verdict_motion, quick=1280, thorough=32000,
        defaults=dict(mesh=MESH_DEF, spar=SPAR_DEF,
                      motion=dict(t_mode="uniform", t=[0.0, 0.0, 0.0], t_seed=0, r_mode="uniform", theta=[0.0, 0.0, 0.0], r_seed=0))),
    Sub("aero_point_export", export_config(), verdict_export, quick=320, thorough=8000),
    Sub("coupled_point", coupled_config(), verdict_coupled, quick=96, thorough=2400, max_shards=8,
        defaults=dict(mesh=MESH_DEF, spar=SPAR_DEF, alpha=3.0, v=50.0, point=[0.0, 0.0, 0.0])),
]
