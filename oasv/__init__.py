"""oasv -- property-based / fuzzing verification harness for OpenAeroStruct (see /verif/DESIGN.md)."""
