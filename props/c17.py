"""C17  Performance and flight-condition functionals satisfy their defining identities (DESIGN.md section 4, C17)."""
import numpy as np
from hypothesis import strategies as st

from oasv import strategies as S
from oasv.core import Outcome, Sub
from oasv.layouts import place_surfaces, symmetry_of
from oasv.meshes import build_mesh
from oasv.models import aero_surface

G = 9.80665  # standard gravity, m/s^2 (the statement's g)

RULE = (
    "functionals: Hypothesis draws 1-4 surfaces (CL_i in [-0.5,1.5], CD_i, S_i in [0.5,300] m^2, structural masses, cg's), "
    "W0, load factor, rho, v, range, SFC, speed of sound, Mach, summed or user-specified reference area and a lift mode "
    "(free / exactly L = W / above / below) and feeds SumAreas, TotalLiftDrag, Equilibrium, BreguetRange and "
    "CenterOfGravity as one-component problems.  total_groups: the same scalars plus per-surface meshes (symmetric "
    "halves and full span), panel force fields (seed-expanded), quarter-chord points, widths and chords are fed to the "
    "TotalPerformance and TotalAeroPerformance groups (user_specified_Sref on/off, internally_connect_fuelburn on/off); "
    "every output (CL, CD, L, D, fuelburn, total_weight, L_equals_W, cg, M, CM, S_ref_total) is compared with the "
    "definition written from the property statement (moment by explicit summation over real and mirrored panels).  "
    "aero_point: 1-2 placed surfaces through AeroPoint (solved VLM), totals recomputed from the per-surface "
    "coefficients, the sectional forces and the mesh.  atmosphere: altitude in [-1000,150000] ft (uniform, table nodes, "
    "points next to nodes) and Mach in [0.05,0.95] through AtmosGroup; v = M a, Re = rho v/mu, ideal gas, a = "
    "sqrt(gamma R T), agreement with an independent analytic US-1976 model (oasv/ref_atmos.py) and Lipschitz "
    "continuity for steps 1e-6..10 ft.  atmosphere_19000ft_window is the regression guard of the repaired table entry "
    "at 19000 ft (7.4123 -> 7.04123 psi, commit 87a2424): the same ordinary checks restricted to (15990, 22010) ft, the "
    "support of the Akima basis of that node (label alt_window_19000ft); a pressure failure there gets the dedicated key "
    "atmos/P_table_19000ft only when it has the transposed-digit signature.  Since the repair the atmosphere sub covers "
    "that interval as well (label main_sub_inside_19000ft_window).  non-trivial: functionals/groups need q > 0, non-zero lift and "
    "non-zero force field; atmosphere cases are all non-trivial; distinct = descriptor digest (6 significant digits)."
)
ASSUMPTIONS = [
    "algebraic identities: rtol 1e-12 of the natural scale of each output (measured floor <= 1e-15), the cg tolerance is "
    "scaled by 1 + fuelburn/(W0 + sum m) because the documented formula subtracts fuelburn from total_weight/g",
    "Breguet exponent R CT CD/(a M CL) limited to <= 3 by rescaling the drawn range (fuel fractions beyond e^3 are not physical)",
    "a configuration with a symmetric surface has its cg in the symmetry plane (cg_y = 0); the moment of a symmetric "
    "surface is then the explicit sum over the modelled half and its mirror image",
    "MAC of the first surface = sum(panel mean chord^2 * width)/S_ref over the whole surface (both halves when symmetric)",
    "atmosphere: table altitude is geopotential (agreement 1e-6 in T with the analytic model; a geometric-altitude reading "
    "disagrees by 2 % in P at 100 kft); tolerances vs the analytic model / gas law 2e-3 between nodes (Akima smoothing of the "
    "lapse-rate kinks: measured T 7.8e-4 at 36.4 kft, 1.8e-3 at 103 kft), at table nodes T 1e-5, P 3e-5, a 3e-5, rho and "
    "gas law 5e-4 (the source's density carries a -1.2e-4 systematic offset); viscosity 3.5e-3 against Sutherland's law with "
    "the source's constants (mu0 1.827e-5 Pa s at 291.15 K, S 120 K; 3 significant digits tabulated = 1.7e-3)",
    "continuity: |f(h+d) - f(h)| <= 1.5 max|f'| d + 4 ulp, max|f'| of the analytic model over the whole table range",
    "a table typo below these tolerances is not detectable",
    "exact identities (v = M a, Re = rho v/mu) are judged in the components' own imperial units (rtol 1e-15); after OpenMDAO's "
    "conversion to SI only to 2e-8, because its unit table (slug vs lbf s^2/ft) is self-consistent to 3.6e-9",
]

WINDOW = (15990.0, 22010.0)  # ft; Akima support of the 19000 ft node is (16000, 22000)
TABLE_NODES = [float(h) for h in list(range(-1000, 100000, 1000)) + list(range(100000, 150001, 5000))]
P19000_TRANSPOSED = 7.4123  # psi, the value of the pinned tree before the fix: commit (neighbours and the gas law require 7.04123)


# ----------------------------------------------------------------------------------------------------------------
# strategies


def surf_scalars():
    return st.fixed_dictionaries(
        dict(
            CL=S.fl(-0.5, 1.5, 0.5, 0.0),
            CD=S.fl(0.001, 0.3, 0.02),
            S=S.logfl(-0.3, 2.5, 10.0),
            mass=S.logfl(0.0, 5.0, 100.0),
            cg=st.lists(S.fl(-30.0, 30.0, 0.0), min_size=3, max_size=3),
        )
    )


def scalars():
    return st.fixed_dictionaries(
        dict(
            W0=S.logfl(1.0, 6.0, 1000.0),
            load_factor=S.fl(0.5, 4.0, 1.0, 2.5),
            rho=S.fl(0.05, 1.5, 1.0),
            v=S.fl(10.0, 300.0, 100.0),
            R=S.logfl(4.0, 7.3, 1e6),
            CT=S.logfl(-6.0, -3.5, 1e-5),
            a=S.fl(280.0, 345.0, 300.0),
            Mach=S.fl(0.05, 0.95, 0.5),
            sref_mode=st.sampled_from(["sum", "user"]),
            S_user=S.logfl(-0.3, 3.0, 50.0),
            empty_cg=st.lists(S.fl(-30.0, 30.0, 0.0), min_size=3, max_size=3),
            fuel_mass=S.logfl(0.0, 5.0, 500.0),
            mu=S.logfl(-5.5, -4.3, 1.8e-5),
        )
    )


def functionals_config():
    return st.fixed_dictionaries(
        dict(
            surfaces=st.lists(surf_scalars(), min_size=1, max_size=4),
            sc=scalars(),
            lift_mode=st.sampled_from(["free", "equal", "above", "below"]),
            lift_factor=S.fl(1.001, 3.0, 1.5),
            CL_b=S.fl(0.05, 1.5, 0.5),
            CD_b=S.fl(0.002, 0.3, 0.02),
        )
    )


def groups_config():
    mesh = S.mesh(kinds=("left", "right", "full", "asym"), nx=(2, 3), nyh=(2, 3), winglet=False)
    surf = st.fixed_dictionaries(dict(sc=surf_scalars(), mesh=mesh, fseed=st.integers(0, 10 ** 6), famp=S.logfl(0.0, 4.0, 1e3),
                                      area_factor=S.fl(0.7, 1.4, 1.0)))
    return st.fixed_dictionaries(
        dict(
            surfaces=st.lists(surf, min_size=1, max_size=3),
            sc=scalars(),
            cg=st.lists(S.fl(-30.0, 30.0, 0.0), min_size=3, max_size=3),
            fuel_internal=st.sampled_from([True, True, False]),
        )
    )


def aero_point_config():
    return st.fixed_dictionaries(
        dict(
            surfaces=S.aero_config(max_surf=2, nx=(2, 3), nyh=(2, 4), max_panels=30),
            flow=S.flow(beta=False, rot=False),
            cg=st.lists(S.fl(-10.0, 10.0, 0.0), min_size=3, max_size=3),
            sref_mode=st.sampled_from(["sum", "user"]),
            S_user=S.logfl(0.0, 2.5, 30.0),
        )
    )


def _near_node(lo, hi):
    nodes = [h for h in TABLE_NODES if lo <= h <= hi]

    @st.composite
    def _s(draw):
        h = draw(st.sampled_from(nodes))
        mode = draw(st.sampled_from(["node", "below", "above"]))
        off = 10.0 ** draw(st.floats(-6.0, 1.0))
        if mode == "below":
            h = max(h - off, lo)
        elif mode == "above":
            h = min(h + off, hi)
        return h

    return _s()


def altitude_main():
    lo_nodes = _near_node(-1000.0, 150000.0)
    uni = st.one_of(st.floats(-1000.0, 40000.0), st.floats(-1000.0, 150000.0), st.floats(40000.0, 150000.0))
    edges = st.sampled_from([-1000.0, 150000.0, 36000.0, 65000.0, 105000.0, 0.0])
    return st.one_of(uni, uni, lo_nodes, edges)


def altitude_window():
    return st.one_of(st.floats(WINDOW[0], WINDOW[1]), _near_node(16000.0, 22000.0), st.just(19000.0))


def atmos_config(alt):
    return st.fixed_dictionaries(dict(altitude=alt, Mach=S.fl(0.05, 0.95, 0.5), dlog=st.floats(-6.0, 1.0), side=st.sampled_from([1, -1])))


# ----------------------------------------------------------------------------------------------------------------
# helpers


def ivc_problem(system, values, name="c", promotes=("*",), connect=()):
    """values: name -> (val, units)"""
    import openmdao.api as om

    p = om.Problem(reports=False)
    ivc = om.IndepVarComp()
    for k, (v, u) in values.items():
        ivc.add_output(k, val=np.array(v, float), units=u)
    p.model.add_subsystem("ivc", ivc, promotes=["*"])
    p.model.add_subsystem(name, system, promotes=list(promotes))
    for src, tgts in connect:
        p.model.connect(src, tgts)
    p.setup()
    p.run_model()
    return p


def limited_range(sc, CL, CD):
    """the drawn range, rescaled so that the Breguet exponent stays <= 3"""
    R = sc["R"]
    ex = R * sc["CT"] / (sc["a"] * sc["Mach"]) * CD / CL
    if abs(ex) > 3.0:
        R = R * 3.0 / abs(ex)
    return R


def mesh_panel_data(m):
    """quarter-chord points of every chordwise segment, spanwise panel widths (projection on the y-z plane of the
    wing quarter-chord line), chords (LE-TE distance) -- plausible inputs for the moment component"""
    b_pts = m[:-1] + 0.25 * (m[1:] - m[:-1])
    qc = m[0] + 0.25 * (m[-1] - m[0])
    widths = np.hypot(np.diff(qc[:, 1]), np.diff(qc[:, 2]))
    chords = np.linalg.norm(m[-1] - m[0], axis=1)
    return b_pts, widths, chords


def moment_about(b_pts, F, cg, symmetric):
    """sum of (r - cg) x F with r the mid points of the bound segments; symmetric: explicit sum over the mirror image"""
    r = 0.5 * (b_pts[:, 1:, :] + b_pts[:, :-1, :]).reshape(-1, 3)
    f = F.reshape(-1, 3)
    M = np.cross(r - cg, f).sum(axis=0)
    if symmetric:
        mir = np.array([1.0, -1.0, 1.0])
        M = M + np.cross(r * mir - cg, f * mir).sum(axis=0)
    return M


def mac_of(widths, chords, S_ref, symmetric):
    cbar = 0.5 * (chords[1:] + chords[:-1])
    tot = float(np.sum(cbar ** 2 * widths))
    if symmetric:
        tot += float(np.sum(cbar[::-1] ** 2 * widths[::-1]))  # the mirrored half
    return tot / S_ref


def names(n):
    return ["s%d" % k for k in range(n)]


def mini_surface(name, mesh=None, symmetry=False):
    return {"name": name, "symmetry": bool(symmetry), "mesh": np.zeros((2, 2, 3)) if mesh is None else mesh}


# ----------------------------------------------------------------------------------------------------------------
# sub: single functionals


def verdict_functionals(desc):
    from openaerostruct.functionals.breguet_range import BreguetRange
    from openaerostruct.functionals.center_of_gravity import CenterOfGravity
    from openaerostruct.functionals.equilibrium import Equilibrium
    from openaerostruct.functionals.sum_areas import SumAreas
    from openaerostruct.functionals.total_lift_drag import TotalLiftDrag

    out = Outcome()
    sc = desc["sc"]
    ss = desc["surfaces"]
    n = len(ss)
    nm = names(n)
    surfaces = [mini_surface(k) for k in nm]
    Ssum = float(sum(s["S"] for s in ss))
    Stot = Ssum if sc["sref_mode"] == "sum" else sc["S_user"]
    q = 0.5 * sc["rho"] * sc["v"] ** 2
    msum = float(sum(s["mass"] for s in ss))

    # SumAreas
    p = ivc_problem(SumAreas(surfaces=surfaces), {k + "_S_ref": (s["S"], "m**2") for k, s in zip(nm, ss)})
    out.close("sum_areas", p.get_val("S_ref_total"), [Ssum], rtol=1e-14)

    # TotalLiftDrag
    vals = {"S_ref_total": (Stot, "m**2"), "rho": (sc["rho"], "kg/m**3"), "v": (sc["v"], "m/s")}
    for k, s in zip(nm, ss):
        vals[k + "_CL"] = (s["CL"], None)
        vals[k + "_CD"] = (s["CD"], None)
        vals[k + "_S_ref"] = (s["S"], "m**2")
    p = ivc_problem(TotalLiftDrag(surfaces=surfaces), vals)
    CLw = sum(s["S"] * s["CL"] for s in ss)
    CDw = sum(s["S"] * s["CD"] for s in ss)
    cls = sum(s["S"] * abs(s["CL"]) for s in ss) + 1e-300
    CL, CD, L, D = (float(p.get_val(k)[0]) for k in ("CL", "CD", "L", "D"))
    out.close("lift_drag/CL_area_weighted", [CL], [CLw / Stot], rtol=1e-13, scale=cls / Stot)
    out.close("lift_drag/CD_area_weighted", [CD], [CDw / Stot], rtol=1e-13, scale=CDw / Stot)
    out.close("lift_drag/L=q*sum(S*CL)", [L], [q * CLw], rtol=1e-13, scale=q * cls)
    out.close("lift_drag/D=q*sum(S*CD)", [D], [q * CDw], rtol=1e-13, scale=q * CDw)
    out.close("lift_drag/L=q*Sref*CL", [L], [q * Stot * CL], rtol=1e-13, scale=q * cls)
    out.close("lift_drag/D=q*Sref*CD", [D], [q * Stot * CD], rtol=1e-13, scale=q * CDw)

    # Equilibrium: W = (W0 + sum m + fuel) g n ; residual 1 - L/W, zero iff L = W
    fuel = sc["fuel_mass"]
    W = (sc["W0"] + msum + fuel) * G * sc["load_factor"]
    mode = desc["lift_mode"]
    if mode == "free":
        CLe = CLw / Stot
    else:
        CLe = W / (q * Stot)
        if mode == "above":
            CLe *= desc["lift_factor"]
        elif mode == "below":
            CLe /= desc["lift_factor"]
    vals = {"fuelburn": (fuel, "kg"), "W0": (sc["W0"], "kg"), "load_factor": (sc["load_factor"], None), "CL": (CLe, None),
            "S_ref_total": (Stot, "m**2"), "v": (sc["v"], "m/s"), "rho": (sc["rho"], "kg/m**3")}
    for k, s in zip(nm, ss):
        vals[k + "_structural_mass"] = (s["mass"], "kg")
    p = ivc_problem(Equilibrium(surfaces=surfaces), vals)
    Lw = q * Stot * CLe / W
    lew = float(p.get_val("L_equals_W")[0])
    out.close("equilibrium/total_weight", p.get_val("total_weight", units="N"), [W], rtol=1e-14)
    out.close("equilibrium/L_equals_W=1-L/W", [lew], [1.0 - Lw], rtol=4e-15, scale=1.0 + abs(Lw))
    if mode == "equal":
        out.le("equilibrium/zero_at_L=W", abs(lew), 2e-15)  # ~8 roundings of the operations involved
    elif abs(Lw - 1.0) > 1e-9:
        out.true("equilibrium/sign", (lew > 0.0) == (Lw < 1.0) and lew != 0.0,
                 "L/W = %.12g but L_equals_W = %.3e" % (Lw, lew))
    out.label("lift=" + mode, "L<W" if Lw < 1.0 else ("L>W" if Lw > 1.0 else "L==W"))

    # Breguet
    CLb, CDb = desc["CL_b"], desc["CD_b"]
    R = limited_range(sc, CLb, CDb)
    vals = {"CT": (sc["CT"], "1/s"), "CL": (CLb, None), "CD": (CDb, None), "speed_of_sound": (sc["a"], "m/s"), "R": (R, "m"),
            "Mach_number": (sc["Mach"], None), "W0": (sc["W0"], "kg")}
    for k, s in zip(nm, ss):
        vals[k + "_structural_mass"] = (s["mass"], "kg")
    p = ivc_problem(BreguetRange(surfaces=surfaces), vals)
    ex = R * sc["CT"] * CDb / (sc["a"] * sc["Mach"] * CLb)
    fb_ref = (sc["W0"] + msum) * np.expm1(ex)
    out.close("breguet/fuelburn", p.get_val("fuelburn", units="kg"), [fb_ref], rtol=1e-12, atol=1e-15 * (sc["W0"] + msum))

    # CenterOfGravity: mass-weighted mean of the empty aircraft and the structures (fuel acts at the cg)
    vals = {"total_weight": (W, "N"), "fuelburn": (fuel, "kg"), "W0": (sc["W0"], "kg"), "load_factor": (sc["load_factor"], None),
            "empty_cg": (sc["empty_cg"], "m")}
    for k, s in zip(nm, ss):
        vals[k + "_structural_mass"] = (s["mass"], "kg")
        vals[k + "_cg_location"] = (s["cg"], "m")
    p = ivc_problem(CenterOfGravity(surfaces=surfaces), vals)
    num = sc["W0"] * np.array(sc["empty_cg"], float) + sum(s["mass"] * np.array(s["cg"], float) for s in ss)
    cg_ref = num / (sc["W0"] + msum)
    cgs = max(float(np.max(np.abs(sc["empty_cg"]))), max(float(np.max(np.abs(s["cg"]))) for s in ss), 1e-300)
    out.close("cg/mass_weighted_mean", p.get_val("cg", units="m"), cg_ref, rtol=1e-13 * (1.0 + fuel / (sc["W0"] + msum)), scale=cgs)

    # ReynoldsComp alone (unit Reynolds number), SI inputs converted by OpenMDAO to the component's imperial units and back
    from openaerostruct.common.reynolds_comp import ReynoldsComp

    p = ivc_problem(ReynoldsComp(), {"rho": (sc["rho"], "kg/m**3"), "v": (sc["v"], "m/s"), "mu": (sc["mu"], "Pa*s")})
    out.close("reynolds/re=rho*v/mu", p.get_val("re", units="1/m"), [sc["rho"] * sc["v"] / sc["mu"]], rtol=2e-8)

    out.label("nsurf=%d" % n, "Sref=" + sc["sref_mode"])
    out.nontrivial = bool(q > 0 and CLw != 0.0)
    return out


# ----------------------------------------------------------------------------------------------------------------
# sub: TotalPerformance / TotalAeroPerformance groups


def verdict_groups(desc):
    from openaerostruct.functionals.total_aero_performance import TotalAeroPerformance
    from openaerostruct.functionals.total_performance import TotalPerformance

    out = Outcome()
    sc = desc["sc"]
    sds = desc["surfaces"]
    n = len(sds)
    nm = names(n)
    syms = [symmetry_of(sd["mesh"]) for sd in sds]
    anysym = any(syms)
    surfaces, data = [], []
    for k, sd in zip(nm, sds):
        m = build_mesh(sd["mesh"])
        b_pts, widths, chords = mesh_panel_data(m)
        sym = symmetry_of(sd["mesh"])
        area = float(np.sum(0.5 * (chords[1:] + chords[:-1]) * widths)) * (2.0 if sym else 1.0)
        rng = np.random.default_rng(int(sd["fseed"]))
        F = sd["famp"] * rng.uniform(-1.0, 1.0, size=(m.shape[0] - 1, m.shape[1] - 1, 3))
        cgl = np.array(sd["sc"]["cg"], float)
        if anysym:
            cgl[1] = 0.0
        surfaces.append(mini_surface(k, m, sym))
        data.append(dict(b_pts=b_pts, widths=widths, chords=chords, S=area * sd["area_factor"], F=F, CL=sd["sc"]["CL"],
                         CD=sd["sc"]["CD"], mass=sd["sc"]["mass"], cg=cgl, sym=sym))
    empty_cg = np.array(sc["empty_cg"], float)
    cg_in = np.array(desc["cg"], float)
    if anysym:
        empty_cg[1] = 0.0
        cg_in[1] = 0.0
    user = sc["sref_mode"] == "user"
    Ssum = float(sum(d["S"] for d in data))
    Stot = sc["S_user"] if user else Ssum
    q = 0.5 * sc["rho"] * sc["v"] ** 2
    msum = float(sum(d["mass"] for d in data))
    CLw = sum(d["S"] * d["CL"] for d in data)
    CDw = sum(d["S"] * d["CD"] for d in data)
    cls = sum(d["S"] * abs(d["CL"]) for d in data) + 1e-300
    CL_ref, CD_ref = CLw / Stot, CDw / Stot
    if abs(CL_ref) < 0.02 * cls / Stot or abs(CL_ref) < 1e-3:
        # Breguet divides by CL: keep away from the pole (lift of the surfaces cancelling)
        data[0]["CL"] = data[0]["CL"] + (0.5 if data[0]["CL"] <= 0.5 else -0.5)
        CLw = sum(d["S"] * d["CL"] for d in data)
        cls = sum(d["S"] * abs(d["CL"]) for d in data) + 1e-300
        CL_ref = CLw / Stot
        out.label("CL_shifted_off_zero")
    R = limited_range(sc, CL_ref, CD_ref)
    MAC0 = mac_of(data[0]["widths"], data[0]["chords"], data[0]["S"], data[0]["sym"])

    aero_vals = {"rho": (sc["rho"], "kg/m**3"), "v": (sc["v"], "m/s")}
    if user:
        aero_vals["S_ref_total"] = (Stot, "m**2")
    for k, d in zip(nm, data):
        aero_vals[k + "_CL"] = (d["CL"], None)
        aero_vals[k + "_CD"] = (d["CD"], None)
        aero_vals[k + "_S_ref"] = (d["S"], "m**2")
        aero_vals[k + "_b_pts"] = (d["b_pts"], "m")
        aero_vals[k + "_widths"] = (d["widths"], "m")
        aero_vals[k + "_chords"] = (d["chords"], "m")
        aero_vals[k + "_sec_forces"] = (d["F"], "N")

    def moments(cg):
        M = np.zeros(3)
        for d in data:
            M = M + moment_about(d["b_pts"], d["F"], cg, d["sym"])
        arm = max(max(float(np.max(np.abs(d["b_pts"] - cg))) for d in data), 1e-300)
        fsum = sum(float(np.sum(np.abs(d["F"]))) * (2.0 if d["sym"] else 1.0) for d in data)
        return M, arm * fsum + 1e-300

    def check_aero(prefix, p, g, cg):
        CL, CD, L, D = (float(p.get_val(g + k)[0]) for k in ("CL", "CD", "L", "D"))
        if not user:
            out.close(prefix + "S_ref_total", p.get_val(g + "S_ref_total", units="m**2"), [Ssum], rtol=1e-14)
        out.close(prefix + "CL", [CL], [CL_ref], rtol=1e-13, scale=cls / Stot)
        out.close(prefix + "CD", [CD], [CD_ref], rtol=1e-13)
        out.close(prefix + "L", [L], [q * Stot * CL_ref], rtol=1e-13, scale=q * cls)
        out.close(prefix + "D", [D], [q * Stot * CD_ref], rtol=1e-13)
        M_ref, mscale = moments(cg)
        out.close(prefix + "M", p.get_val(g + "moment.M", units="N*m"), M_ref, rtol=1e-12, scale=mscale)
        out.close(prefix + "CM", p.get_val(g + "CM"), M_ref / (q * Stot * MAC0), rtol=1e-12, scale=mscale / (q * Stot * MAC0))
        return mscale

    # ---- aero-only group
    vals = dict(aero_vals)
    vals["cg"] = (cg_in, "m")
    p = ivc_problem(TotalAeroPerformance(surfaces=surfaces, user_specified_Sref=user), vals, name="tp", promotes=(),
                    connect=[(k, "tp." + k) for k in vals])
    mscale = check_aero("aero_group/", p, "tp.", cg_in)

    # ---- aerostructural group
    vals = dict(aero_vals)
    vals.update({"CT": (sc["CT"], "1/s"), "speed_of_sound": (sc["a"], "m/s"), "R": (R, "m"), "Mach_number": (sc["Mach"], None),
                 "W0": (sc["W0"], "kg"), "load_factor": (sc["load_factor"], None), "empty_cg": (empty_cg, "m")})
    for k, d in zip(nm, data):
        vals[k + "_structural_mass"] = (d["mass"], "kg")
        vals[k + "_cg_location"] = (d["cg"], "m")
    conn = [(k, "tp." + k) for k in vals]
    internal = bool(desc["fuel_internal"])
    if not internal:
        vals["fuel_ext"] = (sc["fuel_mass"], "kg")
        conn.append(("fuel_ext", ["tp.L_equals_W.fuelburn", "tp.CG.fuelburn"]))
    p = ivc_problem(TotalPerformance(surfaces=surfaces, user_specified_Sref=user, internally_connect_fuelburn=internal), vals,
                    name="tp", promotes=(), connect=conn)
    ex = R * sc["CT"] * CD_ref / (sc["a"] * sc["Mach"] * CL_ref)
    fb_ref = (sc["W0"] + msum) * np.expm1(ex)
    out.close("as_group/fuelburn", p.get_val("tp.fuelburn", units="kg"), [fb_ref], rtol=1e-11, atol=1e-14 * (sc["W0"] + msum))
    fuel = fb_ref if internal else sc["fuel_mass"]
    W = (sc["W0"] + msum + fuel) * G * sc["load_factor"]
    out.close("as_group/total_weight", p.get_val("tp.total_weight", units="N"), [W], rtol=1e-11, scale=abs(W) + (sc["W0"] + msum) * G)
    Lw = q * Stot * CL_ref / W
    out.close("as_group/L_equals_W", p.get_val("tp.L_equals_W"), [1.0 - Lw], rtol=1e-11, scale=1.0 + abs(Lw))
    num = sc["W0"] * empty_cg + sum(d["mass"] * d["cg"] for d in data)
    cg_ref = num / (sc["W0"] + msum)
    cgs = max(float(np.max(np.abs(empty_cg))), max(float(np.max(np.abs(d["cg"]))) for d in data), 1e-300)
    cond = 1.0 + abs(fuel) / (sc["W0"] + msum)
    out.close("as_group/cg", p.get_val("tp.cg", units="m"), cg_ref, rtol=1e-11 * cond, scale=cgs)
    # mass identity behind the cg formula: total_weight/(g n) - fuel = W0 + sum m
    out.close("as_group/mass_identity", [float(p.get_val("tp.total_weight", units="N")[0]) / (G * sc["load_factor"]) - fuel],
              [sc["W0"] + msum], rtol=1e-11 * cond)
    # the moment is taken about the computed cg; judge it about the cg the group reports (its value is checked above)
    check_aero("as_group/", p, "tp.", np.array(p.get_val("tp.cg", units="m"), float))

    out.label("nsurf=%d" % n, "Sref=" + sc["sref_mode"], "fuel_internal" if internal else "fuel_external")
    for sd in sds:
        out.label("kind=" + sd["mesh"]["kind"])
    out.label("first_symmetric" if data[0]["sym"] else "first_full")
    out.label("L<W" if Lw < 1.0 else "L>=W")
    out.nontrivial = bool(q > 0 and CLw != 0.0 and mscale > 1e-200)
    return out


# ----------------------------------------------------------------------------------------------------------------
# sub: AeroPoint


def aero_point_problem(surfaces, flow, cg, S_user=None):
    import openmdao.api as om
    from openaerostruct.aerodynamics.aero_groups import AeroPoint

    prob = om.Problem(reports=False)
    ivc = om.IndepVarComp()
    ivc.add_output("v", val=flow["v"], units="m/s")
    ivc.add_output("alpha", val=flow["alpha"], units="deg")
    ivc.add_output("beta", val=0.0, units="deg")
    ivc.add_output("Mach_number", val=flow["Mach"])
    ivc.add_output("re", val=flow["re"], units="1/m")
    ivc.add_output("rho", val=flow["rho"], units="kg/m**3")
    ivc.add_output("cg", val=np.array(cg, float), units="m")
    prom = ["v", "alpha", "beta", "Mach_number", "re", "rho", "cg"]
    if S_user is not None:
        ivc.add_output("S_ref_total", val=S_user, units="m**2")
        prom.append("S_ref_total")
    for s in surfaces:
        ivc.add_output(s["name"] + "_mesh", val=s["mesh"], units="m")
        ivc.add_output(s["name"] + "_toc", val=0.12 * np.ones(s["mesh"].shape[1] - 1))
    prob.model.add_subsystem("prob_vars", ivc, promotes=["*"])
    prob.model.add_subsystem("aero_point_0", AeroPoint(surfaces=surfaces, user_specified_Sref=S_user is not None),
                             promotes_inputs=prom)
    for s in surfaces:
        nme = s["name"]
        prob.model.connect(nme + "_mesh", "aero_point_0." + nme + ".def_mesh")
        prob.model.connect(nme + "_mesh", "aero_point_0.aero_states." + nme + "_def_mesh")
        prob.model.connect(nme + "_toc", "aero_point_0." + nme + "_perf.t_over_c")
    prob.setup()
    return prob


def verdict_aero_point(desc):
    out = Outcome()
    fl = desc["flow"]
    meshes = place_surfaces(desc["surfaces"], fl["alpha"])
    syms = [symmetry_of(s["mesh"]) for s in desc["surfaces"]]
    surfaces = [aero_surface("s%d" % k, m, syms[k], with_viscous=True, CD0=0.01) for k, m in enumerate(meshes)]
    cg = np.array(desc["cg"], float)
    if any(syms):
        cg[1] = 0.0
    user = desc["sref_mode"] == "user"
    prob = aero_point_problem(surfaces, fl, cg, desc["S_user"] if user else None)
    prob.run_model()
    P = "aero_point_0."
    q = 0.5 * fl["rho"] * fl["v"] ** 2
    Si = [float(prob.get_val(P + "s%d.S_ref" % k, units="m**2")[0]) for k in range(len(meshes))]
    CLi = [float(prob.get_val(P + "s%d_perf.CL" % k)[0]) for k in range(len(meshes))]
    CDi = [float(prob.get_val(P + "s%d_perf.CD" % k)[0]) for k in range(len(meshes))]
    Stot = desc["S_user"] if user else float(sum(Si))
    if not user:
        out.close("aero_point/S_ref_total", prob.get_val(P + "total_perf.S_ref_total", units="m**2"), [sum(Si)], rtol=1e-14)
    CLw = sum(s * c for s, c in zip(Si, CLi))
    CDw = sum(s * c for s, c in zip(Si, CDi))
    cls = sum(s * abs(c) for s, c in zip(Si, CLi)) + 1e-300
    CL = float(prob.get_val(P + "CL")[0])
    CD = float(prob.get_val(P + "CD")[0])
    out.close("aero_point/CL", [CL], [CLw / Stot], rtol=1e-13, scale=cls / Stot)
    out.close("aero_point/CD", [CD], [CDw / Stot], rtol=1e-13)
    out.close("aero_point/L", prob.get_val(P + "total_perf.L", units="N"), [q * Stot * CL], rtol=1e-13, scale=q * cls)
    out.close("aero_point/D", prob.get_val(P + "total_perf.D", units="N"), [q * Stot * CD], rtol=1e-13)
    # moment about the cg from the panel forces acting at the bound-vortex mid points recomputed from the mesh
    M_ref = np.zeros(3)
    mscale = 1e-300
    for k, m in enumerate(meshes):
        F = prob.get_val(P + "aero_states.s%d_sec_forces" % k, units="N")
        b_pts = m[:-1] + 0.25 * (m[1:] - m[:-1])
        M_ref = M_ref + moment_about(b_pts, F, cg, syms[k])
        mscale += float(np.sum(np.abs(F))) * float(np.max(np.abs(b_pts - cg))) * (2.0 if syms[k] else 1.0)
    widths = prob.get_val(P + "s0.widths", units="m")
    chords = prob.get_val(P + "s0.chords", units="m")
    MAC0 = mac_of(widths, chords, Si[0], syms[0])
    out.close("aero_point/M", prob.get_val(P + "total_perf.moment.M", units="N*m"), M_ref, rtol=1e-12, scale=mscale)
    out.close("aero_point/CM", prob.get_val(P + "CM"), M_ref / (q * Stot * MAC0), rtol=1e-12, scale=mscale / (q * Stot * MAC0))
    out.label("nsurf=%d" % len(meshes), "Sref=" + desc["sref_mode"], "first_symmetric" if syms[0] else "first_full")
    out.nontrivial = bool(abs(CLw) > 1e-12 * Stot and float(np.max(np.abs(M_ref))) > 0.0)
    return out


# ----------------------------------------------------------------------------------------------------------------
# sub: atmosphere

SI = dict(T="K", P="Pa", rho="kg/m**3", speed_of_sound="m/s", mu="Pa*s", v="m/s", re="1/m")


NATIVE = dict(T="degR", P="psi", rho="slug/ft**3", speed_of_sound="ft/s", mu="lbf*s/ft**2", v="ft/s", re="1/ft")
KINKS_FT = (11000.0 / 0.3048, 20000.0 / 0.3048, 32000.0 / 0.3048)  # lapse-rate changes of the 1976 model (geopotential)
MU_QUANTUM = 1e-9 * 47.88025898  # one unit of the last tabulated viscosity digit (1e-9 lbf s/ft^2) in Pa s


def atmos_eval(prob, h, M):
    prob.set_val("altitude", h, units="ft")
    prob.set_val("Mach_number", M)
    prob.run_model()
    o = {k: float(prob.get_val(k, units=u)[0]) for k, u in SI.items()}
    o["native"] = {k: float(prob.get_val(k, units=u)[0]) for k, u in NATIVE.items()}
    return o


def atmos_problem():
    import openmdao.api as om
    from openaerostruct.common.atmos_group import AtmosGroup

    prob = om.Problem(reports=False)
    ivc = om.IndepVarComp()
    ivc.add_output("altitude", val=0.0, units="ft")
    ivc.add_output("Mach_number", val=0.5)
    prob.model.add_subsystem("ivc", ivc, promotes=["*"])
    prob.model.add_subsystem("atmos", AtmosGroup(), promotes=["*"])
    prob.setup()
    return prob


def smooth_region(h):
    """table spacing 1000 ft and no lapse-rate kink within the support of the local Akima basis"""
    return h <= 95000.0 and all(abs(h - k) >= 2500.0 for k in KINKS_FT)


def atmos_checks(out, desc, window):
    from oasv import ref_atmos

    h, M = float(desc["altitude"]), float(desc["Mach"])
    prob = atmos_problem()
    o = atmos_eval(prob, h, M)
    ref = {k: float(v[0]) for k, v in ref_atmos.us76(h).items()}
    node = h in TABLE_NODES
    tight = node or smooth_region(h)
    R, gam = ref_atmos.R_AIR, ref_atmos.GAMMA

    # exact algebraic identities between outputs, in the component's own (consistent) unit system: slug = lbf s^2/ft
    nat = o["native"]
    out.close("atmos/v=M*a", [nat["v"]], [M * nat["speed_of_sound"]], rtol=4e-16)
    out.close("atmos/re=rho*v/mu", [nat["re"]], [nat["rho"] * nat["v"] / nat["mu"]], rtol=1e-15)
    # ... and after OpenMDAO's conversion to SI (its unit table is consistent to 4e-9 only)
    out.close("atmos/v=M*a_SI", [o["v"]], [M * o["speed_of_sound"]], rtol=1e-14)
    out.close("atmos/re=rho*v/mu_SI", [o["re"]], [o["rho"] * o["v"] / o["mu"]], rtol=2e-8)

    tol_model = dict(T=1e-5, P=3e-5, rho=5e-4, speed_of_sound=3e-5, mu=3.5e-3) if tight else \
        dict(T=2e-3, P=2e-3, rho=2e-3, speed_of_sound=2e-3, mu=3.5e-3)
    tol_gas = 5e-4 if tight else 2e-3
    tol_snd = 5e-5 if tight else 2e-3
    refname = dict(T="T", P="P", rho="rho", speed_of_sound="a", mu="mu")
    rg = ":smooth" if tight else ":kink_or_coarse"  # separate residual statistics for the two tolerance regimes
    for k in ("T", "rho", "speed_of_sound", "mu"):
        out.le("atmos/%s_vs_us1976%s" % (k, rg), abs(o[k] / ref[refname[k]] - 1.0), tol_model[k])
    out.le("atmos/speed_of_sound=sqrt(gamma*R*T)" + rg, abs(o["speed_of_sound"] / np.sqrt(gam * R * o["T"]) - 1.0), tol_snd)
    r_gas = o["P"] / (o["rho"] * R * o["T"]) - 1.0
    r_mod = o["P"] / ref["P"] - 1.0

    # second evaluation for the continuity checks
    d = 10.0 ** desc["dlog"] * desc["side"]
    h2 = h + d
    if h2 < -1000.0 or h2 > 150000.0:
        h2 = h - d
    o2 = atmos_eval(prob, h2, M)
    ms = dict(ref_atmos.max_slope())
    ms["mu"] = ms["mu"] + MU_QUANTUM / 1000.0  # 3 tabulated digits: rounding steps add up to one quantum per table interval
    cont = {}
    for k in ("T", "P", "rho", "speed_of_sound", "mu"):
        cont[k] = (abs(o2[k] - o[k]), 1.5 * ms[refname[k]] * abs(h2 - h) + 1e-15 * abs(o[k]))
    for k in ("T", "rho", "speed_of_sound", "mu"):
        out.le("atmos/continuity_" + k, *cont[k])

    # pressure: gas law, analytic model, continuity
    if not window:
        out.le("atmos/ideal_gas" + rg, abs(r_gas), tol_gas)
        out.le("atmos/P_vs_us1976" + rg, abs(r_mod), tol_model["P"])
        out.le("atmos/continuity_P", *cont["P"])
    else:
        # The same ordinary checks, restricted to the support of the 19000 ft table node.  A pressure failure carries
        # the dedicated key only if it has the exact signature of the transposed-digit entry: the component returns
        # 7.4123 psi at 19000 ft, every check not involving P passes, and the pressure is too high by no more than that
        # node's own excess (5.27 %) / the pressure step is steeper than allowed by less than a factor 2.  Any other
        # discrepancy keeps the ordinary keys.
        bad = abs(r_gas) > tol_gas or abs(r_mod) > tol_model["P"] or cont["P"][0] > cont["P"][1]
        sig = False
        if bad:
            p19 = float(atmos_problem_eval_P(19000.0))
            sig = (abs(p19 - P19000_TRANSPOSED) < 1e-9 and not out.fails and -tol_gas <= r_gas <= 0.0532
                   and -tol_gas <= r_mod <= 0.0532 and cont["P"][0] <= 2.0 * cont["P"][1])
        if sig:
            out.fail("atmos/P_table_19000ft",
                     "pressure at %.3f ft exceeds rho R T by %.3e and the analytic model by %.3e (step check %.2f of its "
                     "bound); the table node 19000 ft returns %.6g psi where its neighbours 7.33889 / 6.75343 and the gas law "
                     "require 7.04123" % (h, r_gas, r_mod, cont["P"][0] / cont["P"][1], p19), max(abs(r_gas), abs(r_mod)), tol_gas)
        else:
            out.le("atmos/ideal_gas" + rg, abs(r_gas), tol_gas)
            out.le("atmos/P_vs_us1976" + rg, abs(r_mod), tol_model["P"])
            out.le("atmos/continuity_P", *cont["P"])

    out.label("table_node" if node else ("between_nodes_smooth" if tight else "between_nodes_kink_or_coarse"))
    out.label("h<36kft" if h < 36089.0 else ("h<100kft" if h < 100000.0 else "h>=100kft"))
    if abs(d) < 1e-3:
        out.label("step<1e-3ft")
    if node or min(abs(h - t) for t in TABLE_NODES) <= abs(d):
        out.label("step_straddles_or_touches_node")
    if window:
        out.label("alt_window_19000ft")
    out.nontrivial = True
    return out


def atmos_problem_eval_P(h):
    prob = atmos_problem()
    prob.set_val("altitude", h, units="ft")
    prob.run_model()
    return prob.get_val("P", units="psi")[0]


def verdict_atmos(desc):
    out = atmos_checks(Outcome(), desc, window=False)
    if WINDOW[0] < float(desc["altitude"]) < WINDOW[1]:
        out.label("main_sub_inside_19000ft_window")
    return out


def verdict_atmos_window(desc):
    return atmos_checks(Outcome(), desc, window=True)


SUBS = [
    Sub("functionals", functionals_config(), verdict_functionals, quick=1600, thorough=40000),
    Sub("total_groups", groups_config(), verdict_groups, quick=800, thorough=20000),
    Sub("aero_point", aero_point_config(), verdict_aero_point, quick=160, thorough=4000),
    Sub("atmosphere", atmos_config(altitude_main()), verdict_atmos, quick=2400, thorough=60000,
        defaults=dict(altitude=0.0, Mach=0.5, dlog=0.0, side=1)),
    Sub("atmosphere_19000ft_window", atmos_config(altitude_window()), verdict_atmos_window, quick=480, thorough=12000,
        defaults=dict(altitude=19000.0, Mach=0.5, dlog=0.0, side=1)),
]
