"""C05  The VLM solution satisfies flow tangency and matches an independent reference (DESIGN.md section 4, C05)."""
import numpy as np
from hypothesis import strategies as st

from oasv import strategies as S
from oasv.core import Outcome, Sub
from oasv.layouts import place_surfaces, symmetry_of
from oasv.models import aero_direct, aero_surface

RULE = (
    "Hypothesis draws 1-3 lifting surfaces (symmetric left/right halves, mirror-symmetric and asymmetric full span; "
    "nx 2-4(6), ny/half 2-4(6); sweep, taper, dihedral, twist, camber, winglet, cosine/uniform spacing, smooth noise), "
    "placed by construction outside each other's wakes, plus alpha, beta in [-15,15] deg, v, rho and optionally rotation "
    "rates about a drawn cg.  Meshes are fed to AeroPoint directly.  Oracles: linear-system residual; independent "
    "loop-based Biot-Savart reference (oasv/ref_vlm.py) for AIC matrix, rhs, circulations, force-point velocities and "
    "sectional forces; Kutta-Joukowski definition recomputed from OAS's own circulations/velocities/bound vectors; "
    "normal velocity at every 3/4-chord point evaluated by the reference's induction routine with OAS's circulations. "
    "non-trivial = at least 2 panels and |sum F| > 1e-9*q*S; distinct = descriptor digest (6 significant digits)."
)
ASSUMPTIONS = [
    "tolerance 1e-9 relative to the largest entry of each compared array (measured floor 2e-15)",
    "non-degeneracy by construction: no point of a surface inside the wake band of another (oasv/layouts.py)",
    "symmetric surfaces have their root edge exactly on y=0 (off-plane symmetric surfaces are C04's known finding)",
    "shared documented modelling conventions: ring layout, 1/4-chord bound vortex, 3/4-chord collocation, wake along alpha",
]


def config():
    # reverse[k]: the k-th mesh is handed over with its spanwise index running the other way (y decreasing with the index;
    # the vortex-lattice states treat all four layouts of a half mesh - either side, either direction - alike)
    return st.fixed_dictionaries(dict(surfaces=S.aero_config(max_surf=3), flow=S.flow(beta=True, rot=True), units=S.user_units(),
                                      reverse=st.lists(st.sampled_from([False, False, True]), min_size=3, max_size=3)))


def config_big():
    return st.fixed_dictionaries(
        dict(surfaces=S.aero_config(max_surf=3, nx=(2, 6), nyh=(2, 6), max_panels=110), flow=S.flow(beta=True, rot=True),
             reverse=st.lists(st.sampled_from([False, False, True]), min_size=3, max_size=3))
    )


def config_large():
    """one or two surfaces with 500-800 panels in total (size-dependent code paths: solver switches, chunking ...)"""
    @st.composite
    def _c(draw):
        md = draw(S.mesh(kinds=("left", "full", "right"), nx=(4, 7), nyh=(3, 4), noise=False, winglet=False))
        panels = draw(st.integers(505, 760))
        halves = 2 if md["kind"] == "full" else 1
        md["nyh"] = int(np.ceil(panels / ((md["nx"] - 1) * halves))) + 1
        md["side"]["b"] = max(md["side"]["b"], 8.0)
        md["span_blend"] = min(md["span_blend"], 0.5)  # no 1e-4-span tip strips: their round-off amplification is not the subject
        return dict(surfaces=[{"mesh": md}], flow=draw(S.flow(beta=md["kind"] == "full", rot=True)))

    return _c()


def verdict(desc):
    from oasv import ref_vlm

    out = Outcome()
    fl = desc["flow"]
    meshes = place_surfaces(desc["surfaces"], fl["alpha"])
    syms = [symmetry_of(s["mesh"]) for s in desc["surfaces"]]
    rev = list(desc.get("reverse") or [])
    if any(rev[: len(meshes)]):
        meshes = [np.ascontiguousarray(m[:, ::-1, :]) if k < len(rev) and rev[k] else m for k, m in enumerate(meshes)]
        out.label("reversed_spanwise_index")
    surfaces = [aero_surface("s%d" % k, m, syms[k]) for k, m in enumerate(meshes)]
    prob = aero_direct(surfaces, fl, units=desc.get("units"))
    prob.run_model()
    if desc.get("units") and any(v not in ("m", "m/s", "deg", "kg/m**3", "1/m", "rad/s") for v in desc["units"].values()):
        out.label("non-SI-user-units")
    P = "aero_point_0.aero_states."
    mtx = prob.get_val(P + "mtx")
    rhs = prob.get_val(P + "rhs")
    circ = prob.get_val(P + "circulations")
    hcirc = prob.get_val(P + "horseshoe_circulations")
    fvel = prob.get_val(P + "force_pts_velocities")
    bvec = prob.get_val(P + "bound_vecs")
    coll = prob.get_val(P + "coll_pts")
    fpts = prob.get_val(P + "force_pts")
    secf = [prob.get_val(P + "s%d_sec_forces" % k) for k in range(len(meshes))]
    normals = np.concatenate([prob.get_val("aero_point_0.s%d.normals" % k).reshape(-1, 3) for k in range(len(meshes))])
    rho, v = fl["rho"], fl["v"]

    ref = ref_vlm.solve(meshes, syms, fl["alpha"], fl["beta"], v, rho, omega=fl.get("omega"), cg=fl.get("cg"))
    N = ref["G"].size
    vscale = max(float(np.max(np.abs(ref["onset"]))), v)
    # hundreds of panels with cosine-clustered tip strips (segments 1e-4 of the span): the double-precision round-off of
    # OpenAeroStruct's own kernels is amplified by coordinate/segment-length; this class exists to expose size-dependent
    # code paths, which show up at 1e-5 and above
    RT = 1e-7 if N > 400 else 1e-9
    # 1 invariant
    out.le("residual", np.max(np.abs(mtx @ circ - rhs)), 1e-10 * max(np.max(np.abs(rhs)), 1e-300))
    # 2 reference
    out.close("ref/coll_pts", coll, ref["coll"], rtol=1e-12, atol=1e-13)
    out.close("ref/force_pts", fpts, ref["lattice"].fpt, rtol=1e-12, atol=1e-13)
    out.close("ref/bound_vecs", bvec, ref["bv"], rtol=1e-12, atol=1e-13)
    out.close("ref/normals", normals, ref["nrm"], rtol=1e-10, scale=1.0)
    out.close("ref/mtx", mtx, ref["AIC"], rtol=RT)
    out.close("ref/rhs", rhs, ref["rhs"], rtol=RT, scale=vscale)
    # (circulations of a non-lifting case are round-off of O(v c) terms: never judged finer than RT of 1e-6 v c)
    cref_ = max(float(np.max(np.linalg.norm(m[-1] - m[0], axis=1))) for m in meshes)
    gscale = max(float(np.max(np.abs(ref["G"]))), 1e-6 * v * cref_)
    out.close("ref/circulations", circ, ref["G"], rtol=RT, scale=gscale)
    out.close("ref/horseshoe", hcirc, ref["Gh"], rtol=RT, scale=gscale)
    out.close("ref/force_pts_velocities", fvel, ref["Vloc"], rtol=RT)
    # forces: rho G V b per panel; a non-lifting case leaves round-off of that product with G -> the floor above
    bmax = float(np.max(np.linalg.norm(bvec, axis=1)))
    fscale = max(max(float(np.max(np.abs(f))) for f in ref["F"]), rho * 1e-6 * v * cref_ * v * bmax)
    for k, f in enumerate(secf):
        out.close("ref/sec_forces", f, ref["F"][k], rtol=RT, scale=fscale)
    # 3 definition from OAS's own quantities
    Fdef = rho * hcirc[:, None] * np.cross(fvel, bvec)
    out.close("definition/sec_forces", np.concatenate([f.reshape(-1, 3) for f in secf]), Fdef, rtol=1e-10,
              scale=max(float(np.max(np.abs(Fdef))), fscale * 1e-3))
    # 4 independent tangency with OAS's circulations
    vn = ref_vlm.normal_velocity(ref["lattice"], circ, ref["onset"])
    out.le("tangency", np.max(np.abs(vn)), RT * vscale)

    kinds = [s["mesh"]["kind"] for s in desc["surfaces"]]
    out.label("nsurf=%d" % len(meshes))
    for kd in sorted(set(kinds)):
        out.label("kind=" + kd)
    if any(s["mesh"]["nx"] > 2 for s in desc["surfaces"]):
        out.label("nx>2")
    if fl["beta"] != 0:
        out.label("sideslip")
    if "omega" in fl:
        out.label("rotation")
    if any(s["mesh"]["noise_amp"] > 0 for s in desc["surfaces"]):
        out.label("noise")
    if any(s["mesh"]["side"]["winglet"] > 0 for s in desc["surfaces"]):
        out.label("winglet")
    Ftot = np.abs(sum(f.sum(axis=(0, 1)) for f in secf)).max()
    S = sum(prob.get_val("aero_point_0.s%d.S_ref" % k)[0] for k in range(len(meshes)))
    out.nontrivial = bool(N >= 2 and Ftot > 1e-9 * 0.5 * rho * v * v * S)
    return out


def selftest_cfg():
    return st.fixed_dictionaries(dict(b=S.fl(0.5, 20.0, 4.0), c=S.fl(0.2, 5.0, 1.0), a=S.fl(0.05, 10.0, 0.5),
                                      y=S.fl(-0.45, 0.45, 0.0), z=S.fl(-3.0, 3.0, 0.0), alpha=S.fl(-15.0, 15.0, 0.0)))


def selftest_verdict(d):
    """the reference itself against closed forms that do not involve OpenAeroStruct: a single flat panel's vortex ring with
    its wake legs is a horseshoe vortex; its induced velocity in the plane of the horseshoe has the textbook closed form
        w = -G/(4 pi) [ (cos t1 + cos t2)/a  +  (1 + cos p1)/h1  +  (1 + cos p2)/h2 ]   (downwash behind the bound vortex)
    and, out of plane, the three Biot-Savart segments evaluated by direct numerical quadrature."""
    from oasv import ref_vlm

    out = Outcome()
    b, c, a = d["b"], d["c"], d["a"]
    al = np.radians(d["alpha"])
    u = np.array([np.cos(al), 0.0, np.sin(al)])
    # flat panel in the plane spanned by u and y: bound vortex along y at the origin, trailing edge at c*u
    V = np.zeros((2, 2, 3))
    V[0, 0] = [0.0, -b / 2, 0.0]
    V[0, 1] = [0.0, b / 2, 0.0]
    V[1, 0] = V[0, 0] + c * u
    V[1, 1] = V[0, 1] + c * u
    yp = d["y"] * b
    X = (a * u + np.array([0.0, yp, 0.0]))[None, :]
    v = ref_vlm.ring(V, 0, 0, True, u, X)[0]
    nrm = np.cross(u, np.array([0.0, 1.0, 0.0]))  # normal of the horseshoe plane
    h1, h2 = b / 2 + yp, b / 2 - yp
    cos1 = h1 / np.hypot(a, h1)
    cos2 = h2 / np.hypot(a, h2)
    # ring orientation A(j+1) -> B(j): circulation vector along -y: velocity behind the bound vortex is along +nrm*(-1)...
    w_closed = (1.0 / (4 * np.pi)) * ((cos1 + cos2) / a + (1 + a / np.hypot(a, h1)) / h1 + (1 + a / np.hypot(a, h2)) / h2)
    out.close("selftest/in_plane_magnitude", abs(v @ nrm), w_closed, rtol=1e-12)
    out.le("selftest/in_plane_direction", float(np.linalg.norm(v - (v @ nrm) * nrm)), 1e-12 * w_closed)
    # out-of-plane point: direct quadrature of Biot-Savart over the three filaments
    Xo = X[0] + d["z"] * nrm
    if abs(d["z"]) >= 0.2:  # the plain Gauss-Legendre quadrature is only accurate away from the filaments
        def quad(P0, dirv, L):
            """composite Gauss-Legendre along the filament P0 + s*dirv, s in [0, L]: panels graded geometrically around the
            foot of the perpendicular from the evaluation point (the integrand ~ h / (h^2 + (s - s0)^2)^1.5 has width h
            there), the tail of a semi-infinite leg mapped with s = s1 + t / (1 - t)"""
            t, wq = np.polynomial.legendre.leggauss(48)
            s0 = float((Xo - P0) @ dirv)
            h = max(float(np.linalg.norm((Xo - P0) - s0 * dirv)), 1e-3)
            far = 4096.0
            brk = {0.0}
            k = 0.5
            while k <= far:
                for sgn in (-1.0, 1.0):
                    brk.add(s0 + sgn * k * h)
                k *= 2.0
            brk.add(s0)
            top = L if np.isfinite(L) else max(s0, 0.0) + far * h
            brk = sorted(x for x in brk if 0.0 <= x < top) + [top]
            total = np.zeros(3)

            def piece(sgrid, jac):
                pts = P0[None, :] + sgrid[:, None] * dirv[None, :]
                r = Xo[None, :] - pts
                integrand = np.cross(np.tile(dirv, (len(sgrid), 1)), r) / np.linalg.norm(r, axis=1)[:, None] ** 3
                return (integrand * (wq * jac)[:, None]).sum(axis=0)

            for lo_, hi_ in zip(brk[:-1], brk[1:]):
                total += piece(0.5 * (hi_ - lo_) * (t + 1.0) + lo_, 0.5 * (hi_ - lo_) * np.ones_like(t))
            if not np.isfinite(L):
                tt = 0.5 * (t + 1.0)
                total += piece(top + tt / (1.0 - tt), 0.5 / (1.0 - tt) ** 2)
            return total / (4 * np.pi)
        ey = np.array([0.0, 1.0, 0.0])
        vq = quad(V[0, 1], -ey, b) + quad(V[0, 0], u, np.inf) - quad(V[0, 1], u, np.inf)
        vo = ref_vlm.ring(V, 0, 0, True, u, Xo[None, :])[0]
        out.close("selftest/out_of_plane_quadrature", vo, vq, rtol=1e-5, scale=float(np.linalg.norm(vq)))
    out.label("selftest")
    return out


SUBS = [
    Sub("vlm_vs_reference", config(), verdict, quick=960, thorough=12000),
    Sub("vlm_vs_reference_fine", config_big(), verdict, quick=128, thorough=3000),
    Sub("vlm_vs_reference_large", config_large(), verdict, quick=9, thorough=80, max_shards=3),
    Sub("reference_selftest", selftest_cfg(), selftest_verdict, quick=160, thorough=2000),
]
