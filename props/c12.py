"""C12  The coupled aerostructural state is a consistent, path-independent fixed point (DESIGN.md section 4, C12)."""
import numpy as np
import openmdao.api as om
from hypothesis import strategies as st

from oasv import strategies as S
from oasv.core import HistorySub, Outcome, Sub
from oasv.meshes import build_mesh
from oasv.models import aero_direct, aero_surface, aerostruct_problem, struct_alone_problem, struct_surface

RULE = (
    "fixed_point (rule-based state machine over one live multipoint aerostructural Problem): initialize draws tube/wingbox, "
    "symmetric-left or full-span planform, options (viscous, weight relief, point mass + thrust, compressible), 1-2 flight "
    "points and a pool of 2-3 design points (per-flight-point alpha, v, rho, Mach, load factor; twist and thickness design "
    "variables).  Rules: set_solver(nonlinear in {NLBGS+Aitken, NLBGS, Newton(solve_subsystems)} x linear in {Direct, "
    "LinearBlockGS, Krylov+LinearRunOnce}), perturb_state (overwrite disp / loads / circulations = arbitrary initial guess), "
    "goto(point), run_model, change_only_point_k (changes an input only flight point k sees).  Oracles: (1) consistency at "
    "convergence evaluated OUTSIDE the solver: separate AeroPoint on the converged def_mesh reproduces sec_forces, separate "
    "LoadTransfer reproduces loads, separate SpatialBeamAlone with these loads reproduces disp, separate displacement "
    "transfer reproduces def_mesh; (2) all outputs equal the cached default-solver result of a fresh problem; (3) outputs of "
    "the other flight point unchanged.  stiff_limit (given): E x {1e2,1e4,1e6} => |CL-CL_rigid|, |F-F_rigid| decrease ~1/E. "
    "non-trivial = history with >=1 run_model after a solver change, state perturbation or point change; distinct by digest."
)
ASSUMPTIONS = [
    "all nonlinear solvers tightened (NLBGS atol 1e-12, Newton atol 1e-9/rtol 1e-13); comparisons 5e-9 relative (measured floor 4e-13)",
    "a non-default solver that does not converge makes the history inconclusive (docs: convergence not guaranteed); the "
    "default solver failing discards the configuration",
    "flight points are lifting (CL > 1e-3): the Breguet fuel burn, hence cg and CM, are undefined (inf/NaN) for CL <= 0; "
    "such configurations are discarded and counted",
    "B-spline control points constant; structures stiff enough that tip deflection stays below ~15 % of the semi-span",
]


@st.composite
def fpoint(draw):
    return dict(alpha=draw(S.fl(1.5, 7.0, 3.0)), v=draw(S.fl(40.0, 110.0, 80.0)), rho=draw(S.fl(0.4, 1.2, 1.0)),
                Mach=draw(S.fl(0.15, 0.8, 0.3)), load_factor=draw(S.fl(0.5, 2.5, 1.0)))


@st.composite
def config(draw):
    sym = draw(st.booleans())
    md = draw(S.mesh(kinds=("left",) if sym else ("full",), nx=(2, 3), nyh=(3, 4), noise=False, winglet=False,
                     root_offsets=False, max_twist=3.0, max_camber=0.02))
    md["side"]["chord"] = max(md["side"]["chord"], 0.8)
    md["side"]["taper"] = max(md["side"]["taper"], 0.4)
    npts = draw(st.sampled_from([1, 2]))
    return dict(
        mesh=md,
        model=draw(st.sampled_from(["tube", "wingbox"])),
        viscous=draw(st.booleans()),
        weight_relief=draw(st.booleans()),
        n_masses=draw(st.sampled_from([0, 1])),
        compressible=draw(st.booleans()),
        npts=npts,
        # chordwise location of the tube spar (a documented surface key); the ends of the range are valid
        fem_origin=draw(st.sampled_from([0.35, 0.35, 0.0, 1.0, 0.5, 0.2])),
        # AerostructPoint(rotational=True): angular velocity (rad/s) about a user-given centre of rotation
        rot=draw(st.one_of(st.none(), st.none(), st.none(), st.fixed_dictionaries(dict(
            omega=st.lists(S.fl(-0.2, 0.2, 0.05), min_size=3, max_size=3),
            cg=st.lists(S.fl(-5.0, 5.0, 1.0), min_size=3, max_size=3))))),
        solver0=draw(st.tuples(st.sampled_from(["nlbgs_aitken", "nlbgs", "newton"]),
                               st.sampled_from(["direct", "lbgs", "krylov"])).map(list)),
        points=draw(st.lists(st.fixed_dictionaries(dict(
            flows=st.lists(fpoint(), min_size=2, max_size=2),
            twist=S.fl(-3.0, 3.0, 0.0),
            thick=S.fl(0.7, 1.5, 1.0))), min_size=2, max_size=3)),
    )


RULES = {
    "goto": st.integers(0, 2),
    "run_model": None,
    "set_solver": st.tuples(st.sampled_from(["nlbgs_aitken", "nlbgs", "newton"]),
                            st.sampled_from(["direct", "lbgs", "krylov"])).map(list),
    "perturb_state": st.fixed_dictionaries(dict(seed=st.integers(0, 10 ** 6), scale=S.fl(-1.0, 2.0, 0.0))),
    "change_only_point_k": st.fixed_dictionaries(dict(k=st.integers(0, 1), dalpha=S.fl(-2.0, 2.0, 1.0),
                                                      dlf=S.fl(-0.3, 0.5, 0.2))),
}


def _surface(cfg, E_factor=1.0):
    mesh = build_mesh(cfg["mesh"])
    sym = cfg["mesh"]["kind"] == "left"
    kw = dict(struct_weight_relief=cfg["weight_relief"], with_viscous=cfg["viscous"])
    if cfg["n_masses"]:
        kw["n_point_masses"] = 1
    s = struct_surface("wing", mesh, sym, cfg["model"], ncp=2 if sym else 3, **kw)
    b = float(np.max(np.abs(mesh[:, :, 1])))
    c = float(np.max(mesh[-1, :, 0] - mesh[0, :, 0]))
    s["E"] = s["E"] * max(1.0, (b / (8.0 * c)) ** 3) * E_factor
    s["G"] = 0.4 * s["E"]
    # tube: chordwise spar location; wingbox: the key is documented as ignored (the axis follows from the airfoil data)
    s["fem_origin"] = float(cfg.get("fem_origin", 0.35))
    return s, b


def _spar_fraction(surface):
    """independent statement of the normalised chordwise location of the structural axis"""
    if surface["fem_model_type"] == "tube":
        return float(surface["fem_origin"])
    x, yu, yl = surface["data_x_upper"], surface["data_y_upper"], surface["data_y_lower"]
    h0, h1 = yu[0] - yl[0], yu[-1] - yl[-1]
    return float((x[0] * h0 + x[-1] * h1) / (h0 + h1))


def _mass_flow(cfg, b):
    if cfg["n_masses"]:
        return dict(point_masses=[40.0], point_mass_locations=[[0.3, -0.4 * b, 0.0]], engine_thrusts=[300.0])
    return {}


class Interp:
    OUTS = ["CL", "CD", "CM", "fuelburn", "L_equals_W", "coupled.wing.disp", "coupled.wing_loads.loads",
            "coupled.aero_states.wing_sec_forces", "coupled.wing.def_mesh", "wing_perf.vonmises", "wing_perf.failure"]

    def __init__(self, cfg):
        self.cfg = cfg
        self.labels = ["model=" + cfg["model"], "npts=%d" % cfg["npts"],
                       "symmetric" if cfg["mesh"]["kind"] == "left" else "fullspan"]
        for k in ("viscous", "weight_relief", "compressible"):
            if cfg[k]:
                self.labels.append(k)
        if cfg["n_masses"]:
            self.labels.append("point_mass")
        self.labels.append("fem_origin=%g" % cfg.get("fem_origin", 0.35))
        if cfg.get("rot"):
            self.labels.append("rotational")
        self.residuals = {}
        self.surface, self.b = _surface(cfg)
        self.solver = list(cfg.get("solver0", ["nlbgs_aitken", "direct"]))
        self.prob = self.build(self.solver)
        self.cur = None
        self.overrides = {}
        self.cache = {}
        self.dirty = True
        self.perturbed = False
        self.tol = 5e-9

    def build(self, solver):
        cfg = self.cfg
        flows = [dict() for _ in range(cfg["npts"])]
        p = aerostruct_problem([self.surface], _mass_flow(cfg, self.b), npts=cfg["npts"], compressible=cfg["compressible"],
                               flows=flows, rotational=bool(cfg.get("rot")))
        nl, lin = solver
        for i in range(cfg["npts"]):
            c = getattr(p.model, "AS_point_%d" % i).coupled
            if nl == "nlbgs":
                c.nonlinear_solver = om.NonlinearBlockGS(use_aitken=False, maxiter=400, atol=1e-12, rtol=1e-30, iprint=-1,
                                                         err_on_non_converge=True)
            elif nl == "newton":
                c.nonlinear_solver = om.NewtonSolver(solve_subsystems=True, maxiter=60, atol=1e-9, rtol=1e-13, iprint=-1,
                                                     err_on_non_converge=True)
                c.nonlinear_solver.linesearch = None
            if lin == "lbgs":
                c.linear_solver = om.LinearBlockGS(maxiter=300, atol=1e-14, rtol=1e-14, iprint=-1)
            elif lin == "krylov":
                c.linear_solver = om.ScipyKrylov(maxiter=400, atol=1e-14, rtol=1e-12, iprint=-1)
                c.linear_solver.precon = om.LinearRunOnce(iprint=-1)
        return p

    # ---------------------------------------------------------------------------------------------------------
    def point_values(self):
        pt = self.cfg["points"][self.cur]
        flows = [dict(f) for f in pt["flows"][: self.cfg["npts"]]]
        for k, (da, dl) in self.overrides.items():
            if k < len(flows):
                flows[k]["alpha"] += da
                flows[k]["load_factor"] += dl
        return pt, flows

    def apply_point(self, prob):
        pt, flows = self.point_values()
        for i, f in enumerate(flows):
            prob.set_val("alpha_%d" % i, f["alpha"])
            prob.set_val("v_%d" % i, f["v"])
            prob.set_val("rho_%d" % i, f["rho"])
            prob.set_val("Mach_number_%d" % i, f["Mach"])
            prob.set_val("load_factor_%d" % i, f["load_factor"])
            prob.set_val("speed_of_sound_%d" % i, f["v"] / f["Mach"])
        if self.cfg.get("rot"):
            # the rotation inputs of the coupled aerodynamic states are not promoted by AerostructPoint: absolute names
            for i in range(self.cfg["npts"]):
                prob.set_val("AS_point_%d.coupled.aero_states.omega" % i, np.array(self.cfg["rot"]["omega"], float), units="rad/s")
                prob.set_val("AS_point_%d.coupled.aero_states.cg" % i, np.array(self.cfg["rot"]["cg"], float), units="m")
        prob.set_val("wing.twist_cp", pt["twist"] * np.ones(len(self.surface["twist_cp"])))
        if self.cfg["model"] == "tube":
            prob.set_val("wing.thickness_cp", self.surface["thickness_cp"] * pt["thick"])
        else:
            prob.set_val("wing.spar_thickness_cp", self.surface["spar_thickness_cp"] * pt["thick"])
            prob.set_val("wing.skin_thickness_cp", self.surface["skin_thickness_cp"] * pt["thick"])

    def collect(self, prob):
        out = {}
        for i in range(self.cfg["npts"]):
            for k in self.OUTS:
                out["%d:%s" % (i, k)] = np.array(prob.get_val("AS_point_%d.%s" % (i, k)), float).copy()
        return out

    def fresh(self):
        key = (self.cur, tuple(sorted(self.overrides.items())))
        if key not in self.cache:
            p = self.build(["nlbgs_aitken", "direct"])
            self.apply_point(p)
            try:
                p.run_model()
            except om.AnalysisError as e:
                from oasv.core import Discard

                raise Discard("default solver does not converge: %s" % str(e)[:80])
            res = self.collect(p)
            p.cleanup()
            if any(float(res["%d:CL" % i][0]) < 1e-3 for i in range(self.cfg["npts"])):
                from oasv.core import Discard

                raise Discard("non-lifting flight point: Breguet fuel burn (and with it cg, CM) is undefined for CL <= 0")
            self.cache[key] = res
        return self.cache[key]

    # ---------------------------------------------------------------------------------------------------------
    def enabled(self, op):
        if op == "goto":
            return True
        if op == "change_only_point_k":
            return self.cur is not None and self.cfg["npts"] == 2
        return self.cur is not None

    def consistency(self, out, prob, i):
        """oracle (1): every link of the coupling re-evaluated by a separate model"""
        cfg = self.cfg
        A = "AS_point_%d." % i
        pt, flows = self.point_values()
        f = flows[i]
        def_mesh = prob.get_val(A + "coupled.wing.def_mesh").copy()
        secf = prob.get_val(A + "coupled.aero_states.wing_sec_forces").copy()
        loads = prob.get_val(A + "coupled.wing_loads.loads").copy()
        disp = prob.get_val(A + "coupled.wing.disp").copy()
        mesh = prob.get_val("wing.mesh").copy()
        nodes = prob.get_val("wing.nodes").copy()
        sym = cfg["mesh"]["kind"] == "left"
        # aero on the converged deformed mesh
        sa = aero_surface("wing", def_mesh, sym)
        fa = dict(alpha=f["alpha"], v=f["v"], rho=f["rho"], Mach=f["Mach"], beta=0.0)
        if cfg.get("rot"):
            fa.update(omega=cfg["rot"]["omega"], cg=cfg["rot"]["cg"])
        pa = aero_direct([sa], fa, compressible=cfg["compressible"])
        pa.run_model()
        fs = float(np.max(np.abs(secf)))
        out.close("consistency/aero_on_def_mesh", pa.get_val("aero_point_0.aero_states.wing_sec_forces"), secf, rtol=self.tol,
                  scale=fs)
        # load transfer
        from openaerostruct.transfer.load_transfer import LoadTransfer
        from openaerostruct.transfer.displacement_transfer_group import DisplacementTransferGroup

        pl = om.Problem(reports=False)
        pl.model.add_subsystem("lt", LoadTransfer(surface=self.surface), promotes=["*"])
        pl.setup()
        pl.set_val("def_mesh", def_mesh)
        pl.set_val("sec_forces", secf)
        pl.run_model()
        out.close("consistency/load_transfer", pl.get_val("loads"), loads, rtol=self.tol)
        # ... and, from first principles, the nodal loads on the displaced structural axis are statically equivalent to
        # the panel forces acting at the quarter-chord midpoints of the converged deformed mesh
        from props.c11 import check_conservation

        check_conservation(out, "consistency/static_equivalence/", def_mesh, secf, np.zeros(3), _spar_fraction(self.surface),
                           loads=loads)
        # structure under these loads
        extra = {}
        if cfg["n_masses"]:
            mf = _mass_flow(cfg, self.b)
            extra = {"point_masses": (np.array(mf["point_masses"]), "kg"),
                     "point_mass_locations": (np.array(mf["point_mass_locations"]), "m"),
                     "engine_thrusts": (np.array(mf["engine_thrusts"]), "N")}
        ps = struct_alone_problem(self.surface, loads=loads, load_factor=f["load_factor"], extra=extra)
        ps.set_val("geometry.twist_cp", pt["twist"] * np.ones(len(self.surface["twist_cp"])))
        if cfg["model"] == "tube":
            ps.set_val("thickness_cp", self.surface["thickness_cp"] * pt["thick"])
        else:
            ps.set_val("spar_thickness_cp", self.surface["spar_thickness_cp"] * pt["thick"])
            ps.set_val("skin_thickness_cp", self.surface["skin_thickness_cp"] * pt["thick"])
        ps.run_model()
        out.close("consistency/structure", ps.get_val("disp"), disp, rtol=self.tol)
        # displacement transfer
        pd = om.Problem(reports=False)
        ivc = om.IndepVarComp()
        ivc.add_output("mesh", val=mesh, units="m")
        ivc.add_output("nodes", val=nodes, units="m")
        ivc.add_output("disp", val=disp, units="m")
        pd.model.add_subsystem("ivc", ivc, promotes=["*"])
        pd.model.add_subsystem("dt", DisplacementTransferGroup(surface=self.surface), promotes=["*"])
        pd.setup()
        pd.set_val("mesh", mesh)
        pd.set_val("nodes", nodes)
        pd.set_val("disp", disp)
        pd.run_model()
        out.close("consistency/displacement_transfer", pd.get_val("def_mesh"), def_mesh, rtol=self.tol)
        for q in (pa, pl, ps, pd):
            q.cleanup()

    def apply(self, op, args):
        out = Outcome()
        if op == "goto":
            self.cur = args % len(self.cfg["points"])
            self.overrides = {}
            self.apply_point(self.prob)
            self.dirty = True
        elif op == "set_solver":
            self.solver = list(args)
            self.prob.cleanup()
            self.prob = self.build(self.solver)
            if self.cur is not None:
                self.apply_point(self.prob)
            self.dirty = True
        elif op == "perturb_state":
            rng = np.random.default_rng(args["seed"])
            for i in range(self.cfg["npts"]):
                A = "AS_point_%d." % i
                for name in ("coupled.wing.disp", "coupled.wing_loads.loads", "coupled.aero_states.circulations"):
                    v = np.array(self.prob.get_val(A + name), float)
                    mag = float(np.max(np.abs(v)))
                    self.prob.set_val(A + name, args["scale"] * v + 0.3 * mag * rng.uniform(-1.0, 1.0, size=v.shape))
            self.dirty = True
            self.perturbed = True
        elif op == "change_only_point_k":
            k = args["k"]
            other = 1 - k
            before = None
            if not self.dirty:
                before = {n: v for n, v in self.collect(self.prob).items() if n.startswith("%d:" % other)}
            da, dl = self.overrides.get(k, (0.0, 0.0))
            self.overrides[k] = (da + args["dalpha"], dl + args["dlf"])
            self.apply_point(self.prob)
            self._run()
            self.dirty = False
            if before is not None:
                after = self.collect(self.prob)
                for n, v in before.items():
                    out.close("isolation/" + n.split(":")[1].split(".")[-1], after[n], v, rtol=1e-9,
                              atol=1e-12 * (1.0 + float(np.max(np.abs(v)))))
            self._compare(out)
        if op in ("run_model", "goto", "set_solver", "perturb_state") and self.cur is not None:
            # every state-changing operation is followed by an analysis that is judged
            self._run()
            lab = "ran:%s/%s" % tuple(self.solver)
            if lab not in self.labels:
                self.labels.append(lab)
            if self.perturbed and "ran-after-perturb" not in self.labels:
                self.labels.append("ran-after-perturb")
            self.perturbed = False
            self.dirty = False
            self._compare(out)
            self.consistency(out, self.prob, 0 if self.cfg["npts"] == 1 else (self.cur % 2))
        for k, v in out.residuals.items():
            kk = k.split("/")[0]
            if kk not in self.residuals or v[0] > self.residuals[kk][0]:
                self.residuals[kk] = v
        return out

    def _run(self):
        try:
            self.prob.run_model()
        except (ValueError, RuntimeError) as e:
            # a diverging iteration (arbitrary initial guess / Newton without line search) fills the AIC matrix with NaN
            # (scipy: "array must not contain infs or NaNs") or makes the Newton Jacobian singular (OpenMDAO DirectSolver)
            if "infs or NaNs" in str(e) or "NaN" in str(e) or "singular" in str(e).lower():
                from oasv.core import Inconclusive

                raise Inconclusive("diverged: %s" % str(e)[:80])
            raise

    def _compare(self, out):
        ref = self.fresh()
        got = self.collect(self.prob)
        for n, v in ref.items():
            # L_equals_W = (W - L) / W is a difference of O(1) terms: judged against 1, not against itself
            out.close("path/" + n.split(":")[1].split(".")[-1], got[n], v, rtol=self.tol,
                      atol=self.tol if n.endswith("L_equals_W") else self.tol * 1e-3 * (1.0 + float(np.max(np.abs(v)))))

    def nontrivial(self, hist):
        # every operation ends with a judged analysis: non-trivial = an analysis after a solver change, a state
        # perturbation, a second point or a single-point input change
        gotos = 0
        for op, a in hist:
            if op == "goto":
                gotos += 1
                if gotos >= 2:
                    return True
            elif op in ("set_solver", "perturb_state", "change_only_point_k") and gotos >= 1:
                return True
        return False

    def close(self):
        try:
            self.prob.cleanup()
        except Exception:
            pass


# ------------------------------------------------------------------------------------------------------------------
@st.composite
def stiff_cfg(draw):
    cfg = draw(config())
    cfg["npts"] = 1
    cfg["weight_relief"] = False
    cfg["n_masses"] = 0
    cfg["flow"] = draw(fpoint())
    return cfg


def stiff_verdict(cfg):
    out = Outcome()
    f = cfg["flow"]
    errsF = []
    errsC = []
    rigid = None
    for fac in (1e2, 1e4, 1e6):
        s, b = _surface(cfg, E_factor=fac)
        p = aerostruct_problem([s], dict(alpha=f["alpha"], v=f["v"], rho=f["rho"], Mach=f["Mach"], load_factor=f["load_factor"]),
                               compressible=cfg["compressible"])
        p.run_model()
        if rigid is None:
            mesh = p.get_val("wing.mesh").copy()
            pa = aero_direct([aero_surface("wing", mesh, s["symmetry"], with_viscous=cfg["viscous"])],
                             dict(alpha=f["alpha"], v=f["v"], rho=f["rho"], Mach=f["Mach"]), compressible=cfg["compressible"])
            pa.run_model()
            rigid = (pa.get_val("aero_point_0.aero_states.wing_sec_forces").copy(), float(pa.get_val("aero_point_0.CL")[0]))
        F = p.get_val("AS_point_0.coupled.aero_states.wing_sec_forces")
        fs = max(float(np.max(np.abs(rigid[0]))), 1e-9)
        errsF.append(float(np.max(np.abs(F - rigid[0]))) / fs)
        errsC.append(abs(float(p.get_val("AS_point_0.CL")[0]) - rigid[1]))
        p.cleanup()
    for i in range(2):
        if errsF[i] > 1e-8:
            out.le("stiff/forces_decrease", errsF[i + 1], errsF[i] / 20.0, "relative force deviations %r" % errsF)
    out.le("stiff/forces_limit", errsF[-1], 1e-5, "relative force deviations %r" % errsF)
    out.le("stiff/CL_limit", errsC[-1], 1e-5 * max(abs(rigid[1]), 1e-2), "CL deviations %r" % errsC)
    out.label("model=" + cfg["model"])
    out.nontrivial = bool(abs(rigid[1]) > 1e-4)
    return out


SUBS = [
    HistorySub("fixed_point", config(), RULES, Interp, quick=96, thorough=1000, steps=(8, 16)),
    Sub("stiff_limit", stiff_cfg(), stiff_verdict, quick=48, thorough=400),
]
