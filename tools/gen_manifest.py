#!/usr/bin/env python3
"""Regenerates /verif/MANIFEST.json from the table below (keeps the file valid at all times)."""
import json
import os

HERE = os.path.dirname(os.path.dirname(os.path.abspath(__file__)))

# property id -> (technique, level text, level note, design ref)
CHECKS = {}
NOT_YET = {}


def load():
    import importlib.util

    spec = importlib.util.spec_from_file_location("manifest_table", os.path.join(HERE, "tools", "manifest_table.py"))
    m = importlib.util.module_from_spec(spec)
    spec.loader.exec_module(m)
    return m


def main():
    t = load()
    checks = []
    for pid in sorted(t.CHECKS):
        c = t.CHECKS[pid]
        checks.append(
            {
                "property_id": pid,
                "quick_cmd": "./check %s --tier quick" % pid,
                "thorough_cmd": "./check %s --tier thorough" % pid,
                "evidence_file": "/verif/evidence/%s.json" % pid,
                "replay_cmd_template": "./check %s --replay {path}" % pid,
                "engine": c.get("engine", "hypothesis"),
                "level_claimed": {"category": "exploration", "text": c["level"], "design_ref": "DESIGN.md section 4, %s" % pid},
                "level_note": c["note"],
                "technique": c["technique"],
            }
        )
    man = {
        "version": 1,
        "setup_cmd": t.SETUP,
        "hooks": {
            "guard": "OAS_VERIF",
            "enable": "no source hooks are needed: every observable is reachable through the public OpenMDAO API; checks export OAS_VERIF=1 for form's sake",
            "baseline_off_cmd": "cd /repo && /venv/bin/python -m pytest -ra -q -p no:cacheprovider --timeout=900 --continue-on-collection-errors",
            "source_commits": [],
            "add_only": True,
        },
        "engines": t.ENGINES,
        "checks": checks,
        "notes": t.NOTES,
        "not_applicable": [{"property_id": k, "reason": v} for k, v in sorted(t.NOT_APPLICABLE.items())],
    }
    with open(os.path.join(HERE, "MANIFEST.json"), "w") as f:
        json.dump(man, f, indent=1)
    print("wrote MANIFEST.json with %d checks, %d not_applicable" % (len(checks), len(man["not_applicable"])))


if __name__ == "__main__":
    main()
