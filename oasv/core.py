"""Core data types shared by all property modules: Outcome (what a verdict returns), Sub (a sub-check),
History subs (stateful), digests and JSON helpers."""
import hashlib
import json
import math

import numpy as np


class Inconclusive(Exception):
    """Raised by a verdict when the case cannot be judged (solver did not converge, FD noise too large ...)."""


class Discard(Exception):
    """Raised by a verdict when the generated case violates a precondition that could not be constructed away."""


def jsonable(x):
    if isinstance(x, dict):
        return {str(k): jsonable(v) for k, v in x.items()}
    if isinstance(x, (list, tuple)):
        return [jsonable(v) for v in x]
    if isinstance(x, np.ndarray):
        return jsonable(x.tolist())
    if isinstance(x, (np.floating,)):
        return float(x)
    if isinstance(x, (np.integer,)):
        return int(x)
    if isinstance(x, (np.bool_,)):
        return bool(x)
    if isinstance(x, float):
        if math.isnan(x):
            return "nan"
        if math.isinf(x):
            return "inf" if x > 0 else "-inf"
        return x
    if isinstance(x, (str, int, bool)) or x is None:
        return x
    return repr(x)


def _round_sig(x, n=6):
    if isinstance(x, bool) or x is None or isinstance(x, (int, str)):
        return x
    if isinstance(x, float):
        if x == 0 or not math.isfinite(x):
            return x
        return float("%.*g" % (n, x))
    if isinstance(x, dict):
        return {k: _round_sig(v, n) for k, v in sorted(x.items())}
    if isinstance(x, (list, tuple)):
        return [_round_sig(v, n) for v in x]
    return x


def digest(desc):
    s = json.dumps(_round_sig(jsonable(desc)), sort_keys=True)
    return hashlib.sha256(s.encode()).hexdigest()[:16]


class Outcome:
    """Result of evaluating one generated case.

    fails        list of dicts {key, msg, err, tol}; `key` identifies the *kind* of discrepancy (bucket)
    labels       class labels of the case (for the histogram in evidence)
    nontrivial   whether the case is non-trivial by the property's stated rule
    residuals    name -> (worst err/tol ratio, err, tol) to show how close to the tolerance the tree runs
    """

    def __init__(self):
        self.fails = []
        self.labels = []
        self.nontrivial = True
        self.residuals = {}
        self.inconclusive = []
        self.info = {}

    def label(self, *ls):
        for l in ls:
            if l not in self.labels:
                self.labels.append(l)
        return self

    def fail(self, key, msg="", err=None, tol=None):
        self.fails.append({"key": key, "msg": str(msg)[:400], "err": jsonable(err), "tol": jsonable(tol)})

    def note_inconclusive(self, what):
        self.inconclusive.append(str(what)[:200])

    def _resid(self, name, err, tol):
        ratio = err / tol if tol > 0 else (0.0 if err == 0 else float("inf"))
        old = self.residuals.get(name)
        if old is None or ratio > old[0]:
            self.residuals[name] = (float(ratio), float(err), float(tol))

    def le(self, key, err, tol, msg=""):
        """check err <= tol (err a non-negative scalar)."""
        err = float(err)
        tol = float(tol)
        if not math.isfinite(err):
            self.fail(key, "non-finite error %r %s" % (err, msg), err, tol)
            return False
        self._resid(key, err, tol)
        if err > tol:
            self.fail(key, msg or "err %.3e > tol %.3e" % (err, tol), err, tol)
            return False
        return True

    def close(self, key, a, b, rtol=1e-9, atol=0.0, scale=None, msg=""):
        """check max|a-b| <= rtol*scale + atol with scale = max(|a|,|b|) over the arrays unless given."""
        a = np.asarray(a, dtype=float)
        b = np.asarray(b, dtype=float)
        if a.shape != b.shape:
            if a.size == b.size:
                a = a.reshape(b.shape)
            else:
                self.fail(key, "shape mismatch %s vs %s %s" % (a.shape, b.shape, msg))
                return False
        if a.size == 0:
            return True
        if not (np.all(np.isfinite(a)) and np.all(np.isfinite(b))):
            self.fail(key, "non-finite values %s" % msg)
            return False
        if scale is None:
            scale = max(float(np.max(np.abs(a))), float(np.max(np.abs(b))))
        err = float(np.max(np.abs(a - b)))
        tol = rtol * float(scale) + atol
        self._resid(key, err, tol if tol > 0 else 1e-300)
        if err > tol:
            idx = np.unravel_index(int(np.argmax(np.abs(a - b))), a.shape)
            self.fail(
                key,
                "%s max|a-b|=%.3e > %.3e (scale %.3e) at %s: %r vs %r"
                % (msg, err, tol, scale, idx, float(a[idx]), float(b[idx])),
                err,
                tol,
            )
            return False
        return True

    def true(self, key, cond, msg=""):
        if not bool(cond):
            self.fail(key, msg or "condition false")
            return False
        self._resid(key, 0.0, 1.0)
        return True

    def summary(self):
        return {
            "fails": self.fails,
            "labels": self.labels,
            "nontrivial": bool(self.nontrivial),
            "residuals": self.residuals,
            "inconclusive": self.inconclusive,
            "info": jsonable(self.info),
        }


class Sub:
    """A sub-check of a property: a Hypothesis strategy of JSON-able descriptors + a verdict function."""

    kind = "given"

    def __init__(self, name, strategy, verdict, quick, thorough, defaults=None, doc="", max_shards=16):
        self.name = name
        self.strategy = strategy
        self.verdict = verdict
        self.budget = {"quick": quick, "thorough": thorough}
        self.defaults = defaults or {}
        self.doc = doc
        self.max_shards = max_shards


class HistorySub:
    """A stateful sub-check.  `init_strategy` draws the configuration, `rules` maps op name -> strategy of
    JSON-able argument dicts (or None), `make(cfg)` returns an interpreter object with
        .apply(op, args) -> Outcome-like (uses .fails), .enabled(op) -> bool, .close()
    Histories are recorded as JSON so that replay needs only the interpreter."""

    kind = "history"

    def __init__(self, name, init_strategy, rules, make, quick, thorough, steps=(10, 25), doc="", max_shards=16):
        self.name = name
        self.init_strategy = init_strategy
        self.rules = rules
        self.make = make
        self.budget = {"quick": quick, "thorough": thorough}
        self.steps = {"quick": steps[0], "thorough": steps[1]}
        self.doc = doc
        self.max_shards = max_shards
