"""Hypothesis strategies producing JSON-able descriptors (see meshes.py / models.py for their expansion)."""
from hypothesis import strategies as st


SNAP = 1e-4


def _snap(x):
    # tiny-but-non-zero angles/offsets (Hypothesis loves 2**-24, 1e-300 ...) create *nearly* collinear vortex segments
    # for which the textbook Biot-Savart form used by the reference loses digits; exact zeros are kept as a class.
    return 0.0 if abs(x) < SNAP else x


def fl(lo, hi, *special):
    """bounded float with injected special values; magnitudes below SNAP are snapped to exactly 0"""
    base = st.floats(min_value=lo, max_value=hi, allow_nan=False, allow_infinity=False, width=64).map(_snap)
    if special:
        return st.one_of(st.sampled_from([float(s) for s in special]), base)
    return base


def logfl(lo_exp, hi_exp, *special):
    base = st.floats(min_value=lo_exp, max_value=hi_exp, allow_nan=False, width=64).map(lambda e: 10.0 ** e)
    if special:
        return st.one_of(st.sampled_from([float(s) for s in special]), base)
    return base


def side(b=(2.0, 12.0), winglet=True, max_twist=8.0, max_camber=0.06):
    return st.fixed_dictionaries(
        dict(
            b=fl(b[0], b[1], 5.0),
            chord=fl(0.4, 3.0, 1.0),
            sweep=fl(-30.0, 40.0, 0.0),
            taper=fl(0.25, 1.4, 1.0),
            dihedral=fl(-12.0, 15.0, 0.0),
            twist=fl(-max_twist, max_twist, 0.0),
            camber=fl(0.0, max_camber, 0.0),
            winglet=(st.sampled_from([0.0, 0.0, 0.0, 0.7, 0.85]) if winglet else st.just(0.0)),
            winglet_dih=fl(30.0, 75.0, 60.0),
        )
    )


def mesh(kinds=("left", "right", "full", "asym"), nx=(2, 4), nyh=(2, 5), noise=True, winglet=True, root_offsets=True,
         max_twist=8.0, max_camber=0.06):
    """mesh descriptor; root_y is always 0 (off-plane classes are built by the properties that want them)."""

    @st.composite
    def _m(draw):
        kind = draw(st.sampled_from(list(kinds)))
        d = dict(
            kind=kind,
            nx=draw(st.integers(nx[0], nx[1])),
            nyh=draw(st.integers(nyh[0], nyh[1])),
            span_blend=draw(fl(0.0, 1.0, 0.0, 1.0)),
            chord_blend=draw(fl(0.0, 1.0, 0.0, 1.0)),
            root_twist=draw(fl(-4.0, 4.0, 0.0)),
            root_x=draw(fl(-3.0, 3.0, 0.0)) if root_offsets else 0.0,
            root_y=0.0,
            root_z=draw(fl(-2.0, 2.0, 0.0)) if root_offsets else 0.0,
            noise_amp=draw(st.sampled_from([0.0, 0.0, 0.01, 0.03])) if noise else 0.0,
            noise_seed=draw(st.integers(0, 10 ** 6)) if noise else 0,
            side=draw(side(winglet=winglet, max_twist=max_twist, max_camber=max_camber)),
        )
        if kind == "asym":
            d["right"] = draw(side(winglet=winglet, max_twist=max_twist, max_camber=max_camber))
            # the two sides share the root section: same root chord
            d["right"]["chord"] = d["side"]["chord"]
        return d

    return _m()


def flow(beta=True, rot=True, mach=(0.0, 0.9)):
    @st.composite
    def _f(draw):
        d = dict(
            alpha=draw(fl(-15.0, 15.0, 0.0, 5.0)),
            beta=draw(fl(-15.0, 15.0, 0.0)) if beta else 0.0,
            v=draw(fl(1.0, 300.0, 100.0)),
            rho=draw(fl(0.05, 2.0, 1.0)),
            Mach=draw(fl(mach[0], mach[1], 0.3)),
            re=draw(logfl(5.0, 8.0, 1e6)),
        )
        if rot and draw(st.booleans()):
            d["omega"] = [draw(fl(-1.0, 1.0, 0.0)) for _ in range(3)]
            d["cg"] = [draw(fl(-5.0, 5.0, 0.0)) for _ in range(3)]
        return d

    return _f()


def place():
    return st.fixed_dictionaries(
        dict(
            mode=st.just("behind"),
            gap_x=fl(0.0, 6.0, 1.0),
            gap_y=fl(0.2, 3.0, 0.5),
            gap_z=fl(0.0, 3.0, 0.5),
            dir=st.sampled_from([1, -1]),
        )
    )


def aero_config(max_surf=3, kinds=("left", "right", "full", "asym"), nx=(2, 4), nyh=(2, 4), max_panels=40, **meshkw):
    """list of placed surfaces; 'beside' placement only among non-symmetric surfaces."""

    @st.composite
    def _c(draw):
        n = draw(st.sampled_from([1, 1, 2, 2, 3][: 1 + 2 * (max_surf - 1)] if max_surf > 1 else [1]))
        surfs = []
        panels = 0
        for k in range(n):
            md = draw(mesh(kinds=kinds, nx=nx, nyh=nyh, **meshkw))
            npan = (md["nx"] - 1) * ((md["nyh"] - 1) * (1 if md["kind"] in ("left", "right") else 2))
            if k > 0 and panels + npan > max_panels:
                break
            panels += npan
            sd = {"mesh": md}
            if k > 0:
                pl = draw(place())
                all_full = all(s["mesh"]["kind"] in ("full", "asym") for s in surfs) and md["kind"] in ("full", "asym")
                if all_full and draw(st.booleans()):
                    pl["mode"] = "beside"
                sd["place"] = pl
            surfs.append(sd)
        return surfs

    return _c()


def user_units():
    """units in which the user declares his independent variables (same physical values; OpenMDAO converts)"""
    return st.fixed_dictionaries(dict(
        v=st.sampled_from(["m/s", "m/s", "ft/s", "km/h"]),
        alpha=st.sampled_from(["deg", "deg", "rad"]),
        beta=st.sampled_from(["deg", "deg", "rad"]),
        rho=st.sampled_from(["kg/m**3", "kg/m**3", "slug/ft**3"]),
        re=st.sampled_from(["1/m", "1/m", "1/ft"]),
        cg=st.sampled_from(["m", "m", "ft"]),
        height_agl=st.sampled_from(["m", "m", "ft", "km"]),
        omega=st.sampled_from(["rad/s", "rad/s", "deg/s"]),
        mesh=st.sampled_from(["m", "m", "ft", "inch"]),
    ))
