"""'User scripts' built from the documented API only: descriptor -> mesh dict / surface dict(s) -> OpenMDAO problem.

Used by props/c20.py and fuzz/fuzz_setup.py.  A *template* descriptor is JSON-able:

    {"kind": "mesh" | "aero" | "struct" | "aerostruct" | "multisec",
     "mesh": {"wing_type": "rect"|"CRM", "num_x", "num_y" (odd), "symmetry", "span", "root_chord", "span_cos_spacing",
              "chord_cos_spacing", "offset": [x, y, z], "num_twist_cp"},
     "model": "tube"|"wingbox", "viscous", "wave", "ground", "compressible", "tail": bool, "flow": {...},
     "ms": {"n", "gen", "symmetry", "ny": [...], "toc", "joining"}}

`fault` descriptors (see FAULTS) are applied to the dictionaries *after* the valid template has been expanded, so that exactly
one listed fault is injected."""
import copy
import hashlib

import numpy as np
import openmdao.api as om

from . import models as M

FLOW_DEFAULT = dict(v=80.0, alpha=3.0, beta=0.0, Mach=0.3, re=1e6, rho=1.0)
MESH_DEFAULT = dict(wing_type="rect", num_x=2, num_y=5, symmetry=True, span=10.0, root_chord=1.0, span_cos_spacing=0.0,
                    chord_cos_spacing=0.0, offset=[0.0, 0.0, 0.0], num_twist_cp=2)

# every fault the property lists, with the templates it applies to
FAULTS = {
    "ground_no_symmetry": ("aero", "aerostruct"),
    "even_num_y": ("mesh",),
    "unknown_wing_type": ("mesh",),
    "unknown_fem_model_type": ("struct", "aerostruct"),
    "one_thickness_cp": ("struct", "aerostruct"),
    "ms_len_ny": ("multisec",),
    "ms_len_taper": ("multisec",),
    "ms_len_span": ("multisec",),
    "ms_len_sweep": ("multisec",),
    "ms_len_sec_name": ("multisec",),
    "ms_len_meshes": ("multisec",),
    "unknown_key_mesh": ("mesh",),
    "unknown_key_surface": ("aero", "struct", "aerostruct", "multisec"),
}
# strings that are neither "rect" nor contain "CRM" (anything containing "CRM" is treated as a CRM variant by the code:
# 'CRM:foo' is silently accepted - an UNLISTED malformed input, logged by the fuzz target, not asserted)
BAD_WING_TYPES = ["delta", "crm", "Rect", "RECT", "", "rectangle", "elliptic", "rect ", "Crm:jig"]
BAD_FEM_TYPES = ["shell", "Tube", "beam", "", "wing_box", "TUBE", "box"]
# plausible typos / misplaced keys; none of them is read anywhere in openaerostruct (checked by grep), none is documented
UNKNOWN_SURFACE_KEYS = ["spam", "twist", "thickness", "symetry", "with_Viscous", "CL_0", "wing_type", "offset", "chord",
                        "Mesh", "t_over_c", "youngs_modulus",
                        # near misses: a supported key with a suffix (none of them is the documented `<name>_dv` switch)
                        "sweep_deg", "span_m", "twist_cp_deg", "CD0_wing", "E_modulus", "yield_stress", "k_lam_upper", "mesh_file"]
UNKNOWN_MESH_KEYS = ["spam", "nx", "ny", "Span", "sweep", "taper", "name", "chord", "symetry", "num_z"]


def sha(a):
    a = np.ascontiguousarray(np.asarray(a))
    return hashlib.sha256(a.tobytes() + str(a.shape).encode() + str(a.dtype).encode()).hexdigest()


def _hash_value(v):
    if isinstance(v, np.ndarray):
        return sha(v)
    if isinstance(v, (list, tuple)):
        return "[" + ",".join(_hash_value(x) for x in v) + "]"
    if isinstance(v, dict):
        return "{" + ",".join("%r:%s" % (k, _hash_value(x)) for k, x in sorted(v.items(), key=lambda kv: repr(kv[0]))) + "}"
    return "%s:%r" % (type(v).__name__, v)


def mesh_hashes(surfaces):
    """fingerprint of everything the user handed over: one entry per key of every surface dictionary (arrays by SHA-256 of
    their bytes, shape and dtype; lists element-wise; scalars by type and repr), plus one entry per array of a
    multi-section 'meshes' list.  A key that appears or disappears shows up as a changed set of entries."""
    out = {}
    for i, s in enumerate(surfaces):
        for k, v in s.items():
            out["%d:%s:%s" % (i, s.get("name"), k)] = _hash_value(v)
        ms = s.get("meshes")
        if isinstance(ms, (list, tuple)):
            for j, m in enumerate(ms):
                if isinstance(m, np.ndarray):
                    out["%d:%s:meshes[%d]" % (i, s.get("name"), j)] = sha(m)
    return out


def added_keys(before, after, allowed=()):
    """entries present after but not before (keys the library wrote into the user's dictionaries)"""
    return sorted(k for k in after if k not in before and k.rsplit(":", 1)[-1] not in allowed)


# ----------------------------------------------------------------------------------------------------------------
# dictionaries


def mesh_dict(md):
    d = dict(MESH_DEFAULT)
    d.update(md or {})
    out = {"num_x": int(d["num_x"]), "num_y": int(d["num_y"]), "wing_type": d["wing_type"], "symmetry": bool(d["symmetry"]),
           "span_cos_spacing": float(d["span_cos_spacing"]), "chord_cos_spacing": float(d["chord_cos_spacing"]),
           "offset": np.array(d["offset"], float)}
    if isinstance(d["wing_type"], str) and "CRM" in d["wing_type"]:
        out["num_twist_cp"] = int(d["num_twist_cp"])
    else:
        out["span"] = float(d["span"])
        out["root_chord"] = float(d["root_chord"])
    return out


def make_mesh(mdict):
    from openaerostruct.geometry.utils import generate_mesh

    r = generate_mesh(mdict)
    if isinstance(r, tuple):
        return r[0], r[1]
    return r, None


def aero_surface_dict(name, mesh, symmetry, t, twist=None):
    s = {
        "name": name,
        "symmetry": bool(symmetry),
        "S_ref_type": t.get("S_ref_type", "wetted"),
        "mesh": mesh,
        "twist_cp": np.zeros(2) if twist is None else np.array(twist, float),
        "CL0": 0.0,
        "CD0": 0.015,
        "k_lam": 0.05,
        "t_over_c_cp": np.array([0.15]),
        "c_max_t": 0.303,
        "with_viscous": bool(t.get("viscous", False)),
        "with_wave": bool(t.get("wave", False)),
    }
    if t.get("ground"):
        s["groundplane"] = True
    return s


def struct_surface_dict(name, mesh, symmetry, t, twist=None):
    s = aero_surface_dict(name, mesh, symmetry, t, twist)
    model = t.get("model", "tube")
    s.update({
        "fem_model_type": model,
        "E": 70.0e9,
        "G": 30.0e9,
        "yield": 500.0e6 / 2.5,
        "mrho": 3.0e3,
        "fem_origin": 0.35,
        "wing_weight_ratio": 2.0,
        "struct_weight_relief": bool(t.get("weight_relief", False)),
        "distributed_fuel_weight": False,
        "Wf_reserve": 100.0,
        "exact_failure_constraint": False,
    })
    if model == "wingbox":
        s.update({k: v.copy() for k, v in M.WINGBOX_AIRFOIL.items()})
        s.update({"spar_thickness_cp": 0.006 * np.ones(2), "skin_thickness_cp": 0.012 * np.ones(2),
                  "original_wingbox_airfoil_t_over_c": 0.12, "strength_factor_for_upper_skin": 1.0, "fuel_density": 803.0,
                  "t_over_c_cp": np.array([0.12])})
    else:
        s["thickness_cp"] = 0.02 * np.ones(2)
    return s


def multisec_surface_dict(ms):
    n = int(ms.get("n", 2))
    sym = bool(ms.get("symmetry", True))
    nys = [int(v) for v in ms.get("ny", [5] * n)]
    s = {"name": "surface", "is_multi_section": True, "num_sections": n, "sec_name": ["sec%d" % i for i in range(n)],
         "symmetry": sym, "S_ref_type": "wetted", "taper": [float(v) for v in ms.get("taper", [0.8] * n)],
         "span": [float(v) for v in ms.get("span", [1.0 + 0.3 * i for i in range(n)])],
         "sweep": [float(v) for v in ms.get("sweep", [0.1] * n)], "root_chord": float(ms.get("root_chord", 1.0)),
         "meshes": "gen-meshes", "nx": int(ms.get("nx", 2)), "ny": nys, "CL0": 0.0, "CD0": 0.015, "k_lam": 0.05, "c_max_t": 0.303,
         "with_viscous": bool(ms.get("viscous", False)), "with_wave": False, "groundplane": False,
         "twist_cp": [np.zeros(2) for _ in range(n)], "chord_cp": [np.ones(2) for _ in range(n)]}
    if not sym:
        s["root_section"] = n - 1  # all sections on the left of the root (several right sections: C14's known finding)
    if ms.get("toc"):
        s["t_over_c_cp"] = [np.array([0.12]) for _ in range(n)]
    if not ms.get("gen", True):
        import openaerostruct.geometry.geometry_mesh_gen as mg

        _, secs = mg.generate_mesh(s)
        s["meshes"] = [np.array(m) for m in secs]
        for m, off in zip(s["meshes"], ms.get("offsets") or []):
            m += np.array(off, float)  # each section in a frame of its own (the unification aligns the leading edges)
        for k in ("taper", "span", "sweep", "root_chord", "nx", "ny"):
            s.pop(k)
    return s


# ----------------------------------------------------------------------------------------------------------------
# problems


def multisec_problem(s, flow, joining=False, compressible=False):
    from openaerostruct.aerodynamics.aero_groups import AeroPoint
    from openaerostruct.geometry.geometry_group import MultiSecGeometry, build_sections
    from openaerostruct.geometry.geometry_unification import unify_mesh

    fl = dict(FLOW_DEFAULT)
    fl.update(flow or {})
    p = om.Problem(reports=False)
    ivc = om.IndepVarComp()
    ivc.add_output("v", val=fl["v"], units="m/s")
    ivc.add_output("alpha", val=fl["alpha"], units="deg")
    ivc.add_output("beta", val=fl["beta"], units="deg")
    ivc.add_output("Mach_number", val=fl["Mach"])
    ivc.add_output("re", val=fl["re"], units="1/m")
    ivc.add_output("rho", val=fl["rho"], units="kg/m**3")
    ivc.add_output("cg", val=np.zeros(3), units="m")
    p.model.add_subsystem("prob_vars", ivc, promotes=["*"])
    name = s["name"]
    kw = {}
    if joining:
        kw = dict(joining_comp=True, dim_constr=[np.array([1, 0, 0])] * s["num_sections"])
    p.model.add_subsystem(name, MultiSecGeometry(surface=s, **kw))
    s["mesh"] = unify_mesh(build_sections(s))  # documented recipe: AeroPoint needs the unified mesh size
    p.model.add_subsystem("aero_point_0", AeroPoint(surfaces=[s], compressible=compressible),
                          promotes_inputs=["v", "alpha", "beta", "Mach_number", "re", "rho", "cg"])
    uni = "%s.%s_unification.%s_uni_mesh" % (name, name, name)
    p.model.connect(uni, "aero_point_0.%s.def_mesh" % name)
    p.model.connect(uni, "aero_point_0.aero_states.%s_def_mesh" % name)
    if "t_over_c_cp" in s:
        p.model.connect("%s.%s_unification.%s_uni_t_over_c" % (name, name, name), "aero_point_0.%s_perf.t_over_c" % name)
    p.setup()
    return p


class Script:
    """expanded template: .surfaces (the user's dictionaries), .build() -> problem (setup done), .kind"""

    def __init__(self, t, mutate=None):
        self.t = t
        self.kind = t["kind"]
        self.flow = dict(FLOW_DEFAULT)
        self.flow.update(t.get("flow") or {})
        self.mdict = None
        self.surfaces = []
        self.mesh = None
        self.prob = None
        if self.kind == "multisec":
            self.surfaces = [multisec_surface_dict(t.get("ms", {}))]
        else:
            self.mdict = mesh_dict(t.get("mesh"))
            if mutate:
                mutate("mesh_dict", self.mdict)
            self.mesh, twist = make_mesh(self.mdict)
            if self.kind != "mesh":
                sym = self.mdict["symmetry"]
                mk = aero_surface_dict if self.kind == "aero" else struct_surface_dict
                self.surfaces = [mk("wing", self.mesh, sym, t, twist)]
                if t.get("tail") and self.kind in ("aero", "aerostruct"):
                    tm, _ = make_mesh({"num_x": 2, "num_y": 5, "wing_type": "rect", "symmetry": sym, "span": 4.0, "root_chord": 0.7,
                                       "offset": np.array([6.0, 0.0, 0.8])})
                    tt = dict(t, model="tube")
                    self.surfaces.append(mk("tail", tm, sym, tt))
        if mutate:
            mutate("surfaces", self.surfaces)

    def build(self):
        t = self.t
        k = self.kind
        if k == "mesh":
            return None
        if k == "aero":
            height = 12.0 if any(s.get("groundplane") for s in self.surfaces) else None
            p = M.aero_geom_problem(self.surfaces, self.flow, compressible=bool(t.get("compressible")), height=height)
        elif k == "struct":
            s = self.surfaces[0]
            ny = s["mesh"].shape[1]
            loads = np.zeros((ny, 6))
            loads[:, 2] = 1.0e3 * np.linspace(1.0, 2.0, ny)
            loads[:, 4] = -50.0
            p = M.struct_alone_problem(s, loads=loads)
        elif k == "aerostruct":
            p = M.aerostruct_problem(self.surfaces, self.flow, compressible=bool(t.get("compressible")))
        elif k == "multisec":
            p = multisec_problem(self.surfaces[0], self.flow, joining=bool(t.get("ms", {}).get("joining")),
                                 compressible=bool(t.get("compressible")))
        else:
            raise ValueError(k)
        self.prob = p
        return p

    # --- totals used by the repeatability / interleaving checks
    def totals_spec(self):
        k = self.kind
        if k == "aero":
            return ["aero_point_0.CL", "aero_point_0.CD"], ["alpha", "wing.twist_cp"]
        if k == "struct":
            s = self.surfaces[0]
            wrt = ["loads"] + (["thickness_cp"] if s.get("fem_model_type") == "tube" else ["spar_thickness_cp"])
            return ["failure", "structural_mass"], wrt
        if k == "aerostruct":
            s = self.surfaces[0]
            wrt = ["alpha", "wing.twist_cp"] + (["wing.thickness_cp"] if s["fem_model_type"] == "tube" else ["wing.skin_thickness_cp"])
            return ["AS_point_0.fuelburn", "AS_point_0.wing_perf.failure", "AS_point_0.CL"], wrt
        if k == "multisec":
            return ["aero_point_0.CL", "aero_point_0.CD"], ["alpha"]
        return [], []


def all_outputs(prob):
    """name -> array copy of every output of the model (public API)"""
    res = {}
    for name, meta in prob.model.list_outputs(val=True, out_stream=None, return_format="list"):
        res[name] = np.array(meta["val"], dtype=float).copy()
    return res


def set_flow(prob, kind, flow):
    if kind == "struct":
        if "load_factor" in flow:
            prob.set_val("load_factor", flow["load_factor"])
        return
    for k, n in (("v", "v"), ("alpha", "alpha"), ("Mach", "Mach_number"), ("re", "re"), ("rho", "rho")):
        if k in flow:
            prob.set_val(n, flow[k])
    if kind == "aerostruct" and "v" in flow:
        prob.set_val("speed_of_sound", flow["v"] / max(flow.get("Mach", 0.3), 1e-3))


def apply_fault(fault, params):
    """-> mutate(stage, obj) callback injecting exactly one fault"""
    which = params.get("which", 0)
    delta = -1 if params.get("shorter", True) else 1

    def mutate(stage, obj):
        if stage == "mesh_dict":
            if fault == "even_num_y":
                obj["num_y"] = int(params.get("even", 4))
            elif fault == "unknown_wing_type":
                obj["wing_type"] = BAD_WING_TYPES[which % len(BAD_WING_TYPES)]
            elif fault == "unknown_key_mesh":
                obj[UNKNOWN_MESH_KEYS[which % len(UNKNOWN_MESH_KEYS)]] = params.get("value", 3)
            return
        surfaces = obj
        if not surfaces:
            return
        tgt = surfaces[params.get("surface", 0) % len(surfaces)]
        if fault == "ground_no_symmetry":
            for s in surfaces:
                s["groundplane"] = True
        elif fault == "unknown_fem_model_type":
            tgt["fem_model_type"] = BAD_FEM_TYPES[which % len(BAD_FEM_TYPES)]
        elif fault == "one_thickness_cp":
            del tgt[("spar_thickness_cp", "skin_thickness_cp")[which % 2]]
        elif fault == "unknown_key_surface":
            tgt[UNKNOWN_SURFACE_KEYS[which % len(UNKNOWN_SURFACE_KEYS)]] = params.get("value", 3)
        elif fault.startswith("ms_len_"):
            key = fault[len("ms_len_"):]
            v = list(tgt[key])
            if delta < 0:
                v = v[:-1]
            else:
                v = v + [copy.deepcopy(v[-1])]
            tgt[key] = v

    return mutate


def unknown_key_name(fault, params):
    which = params.get("which", 0)
    if fault == "unknown_key_mesh":
        return UNKNOWN_MESH_KEYS[which % len(UNKNOWN_MESH_KEYS)]
    return UNKNOWN_SURFACE_KEYS[which % len(UNKNOWN_SURFACE_KEYS)]
