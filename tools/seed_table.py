#!/usr/bin/env python3
"""tools/seed_table.py [prefix] : markdown table of the seeded changes under /verif/seeded (DESIGN.md section 12).
prefix '' = round 1 (C01_a ...), 'R2_' = round 2."""
import json
import os
import re
import sys

VERIF = os.path.dirname(os.path.dirname(os.path.abspath(__file__)))
prefix = sys.argv[1] if len(sys.argv) > 1 else ""
NOTES = json.load(open(os.path.join(VERIF, "seeded", "notes.json"))) if os.path.exists(os.path.join(VERIF, "seeded", "notes.json")) else {}

print("| id | property | change | caught by (sub-checks) | note |")
print("|----|----------|--------|------------------------|------|")
for name in sorted(os.listdir(os.path.join(VERIF, "seeded"))):
    d = os.path.join(VERIF, "seeded", name)
    if not os.path.isdir(d):
        continue
    if prefix and not name.startswith(prefix):
        continue
    if not prefix and not re.match(r"C\d\d_", name):
        continue
    m = json.load(open(os.path.join(d, "meta.json")))
    caught = []
    for pid, r in sorted(m["verified_by_me"]["checks_quick_tier"].items()):
        if r["exit"] == 1:
            subs = sorted({k.split("sub=")[1].split(" ")[0] for k in r["keys"] if "sub=" in k})
            s = ", ".join(subs[:3]) + (" …" if len(subs) > 3 else "")
            caught.append("%s (%s)" % (pid, s))
    what = (m.get("what") or "").replace("|", "/").replace("\n", " ")
    if len(what) > 150:
        what = what[:150] + "…"
    print("| %s | %s | %s | %s | %s |" % (name, m["property"], what, "; ".join(caught) or "**none**", NOTES.get(name, "")))
