#!/bin/sh
# tools/quiet_sweep.sh "<seeds>" <scale> [props...]  : quietness protocol (DESIGN.md section 7.1) on the current /repo tree
cd "$(dirname "$0")/.." || exit 2
SEEDS="${1:-1 2 3 4 5}"; SCALE="${2:-1}"; shift 2 2>/dev/null
PROPS="${*:-C01 C02 C03 C04 C05 C06 C07 C08 C09 C10 C11 C12 C13 C14 C15 C16 C17 C18 C19 C20}"
for s in $SEEDS; do for p in $PROPS; do
  out=$(VERIF_SEED=$s ./check $p --no-evidence --scale $SCALE 2>&1); rc=$?
  echo "seed=$s $p exit=$rc $(echo "$out" | grep -E '^property=' | sed 's/.*evaluations=\([0-9]*\).*wall=\([0-9.]*\)s.*/evals=\1 wall=\2s/')"
  echo "$out" | grep -E "^VIOLATION|violation sub|HARNESS-ERROR" | cut -c1-300
done; done
