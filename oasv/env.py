"""Process environment: make sure the code under test is /repo's working tree, quiet OpenMDAO, fix threading."""
import os
import sys

VERIF_DIR = os.path.dirname(os.path.dirname(os.path.abspath(__file__)))
REPO = os.path.abspath(os.environ.get("VERIF_REPO", "/repo"))


class HarnessError(Exception):
    """Infrastructure problem (never a property violation) -> exit code 2."""


def prepare():
    os.environ.setdefault("OPENMDAO_REPORTS", "0")
    os.environ.setdefault("OMP_NUM_THREADS", "1")
    os.environ.setdefault("OPENBLAS_NUM_THREADS", "1")
    os.environ.setdefault("MKL_NUM_THREADS", "1")
    os.environ.setdefault("OAS_VERIF", "1")
    for p in (os.path.join(VERIF_DIR, ".deps"), VERIF_DIR, REPO):
        if p in sys.path:
            sys.path.remove(p)
    # order: REPO first (shadows the site-packages copy), then /verif, then optional deps
    sys.path.insert(0, os.path.join(VERIF_DIR, ".deps"))
    sys.path.insert(0, VERIF_DIR)
    sys.path.insert(0, REPO)


def assert_tree():
    import warnings

    warnings.filterwarnings("ignore")
    import openaerostruct

    import openmdao.api  # noqa: F401  (installs its own "always" warning filters at import)

    warnings.filterwarnings("ignore")
    f = os.path.abspath(openaerostruct.__file__)
    if not f.startswith(REPO + os.sep):
        raise HarnessError("openaerostruct imported from %s, expected under %s" % (f, REPO))
    return f
