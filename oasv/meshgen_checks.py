"""Validity predicates for the mesh generators (C14), shared by the Hypothesis sub-checks (props/c14.py) and the atheris
fuzz target (fuzz/fuzz_meshgen.py).  Every function takes a JSON-able descriptor and an Outcome and records failures;
nothing is raised for a discrepancy.  OpenAeroStruct is imported lazily (after oasv.env.prepare())."""
import warnings

import numpy as np

from .ref_geom import mirror

RT = 1e-12

WING_TYPES = ["rect", "CRM", "CRM:jig", "CRM:alpha_2.75"]


# ----------------------------------------------------------------------------------------------------------------
# single-surface generate_mesh / getFullMesh


def _mesh_dict(d, symmetry, offset=None, with_span_keys=True):
    md = {
        "num_x": int(d["num_x"]),
        "num_y": int(d["num_y"]),
        "wing_type": d["wing_type"],
        "symmetry": bool(symmetry),
        "span_cos_spacing": float(d["span_cos"]),
        "chord_cos_spacing": float(d["chord_cos"]),
        "num_twist_cp": int(d["num_twist_cp"]),
    }
    if with_span_keys:
        md["span"] = float(d["span"])
        md["root_chord"] = float(d["root_chord"])
    if offset is not None:
        md["offset"] = np.array(offset, float)
    return md


def _gen(md):
    """-> (mesh, twist or None, warnings)"""
    from openaerostruct.geometry.utils import generate_mesh

    with warnings.catch_warnings(record=True) as w:
        warnings.simplefilter("always")
        r = generate_mesh(md)
    if isinstance(r, tuple):
        return r[0], r[1], w
    return r, None, w


def ordered(out, key, m):
    ok = True
    if m.shape[0] > 1:
        ok &= out.true(key + "/x_increasing_chordwise", np.all(np.diff(m[:, :, 0], axis=0) > 0), "x not strictly increasing along axis 0")
    if m.shape[1] > 1:
        ok &= out.true(key + "/y_increasing_spanwise", np.all(np.diff(m[:, :, 1], axis=1) > 0), "y not strictly increasing along axis 1")
    return ok


def blend_span(ny2, b):
    """normalised spanwise distance from the root of the stations of one half, tip first: blend of cosine spacing
    cos(beta), beta uniform in [0, pi/2] (bunched at the tip) and uniform spacing; documented: 0 = uniform, 1 = cosine"""
    return b * np.cos(np.linspace(0.0, np.pi / 2.0, ny2)) + (1.0 - b) * np.linspace(1.0, 0.0, ny2)


def blend_chord(nx, b):
    return b * 0.5 * (1.0 - np.cos(np.linspace(0.0, np.pi, nx))) + (1.0 - b) * np.linspace(0.0, 1.0, nx)


def check_generate_mesh(d, out):
    """d: num_x, num_y, wing_type, span, root_chord, span_cos, chord_cos, offset[3], num_twist_cp"""
    from openaerostruct.geometry.utils import getFullMesh

    nx, ny = int(d["num_x"]), int(d["num_y"])
    crm = d["wing_type"] != "rect"
    out.label("wing_type=" + d["wing_type"])
    if ny % 2 == 0:
        out.label("even_num_y")
        for sym in (False, True):
            try:
                _gen(_mesh_dict(d, sym))
            except ValueError:
                continue
            out.fail("even_num_y_not_rejected", "generate_mesh accepted num_y=%d (symmetry=%s)" % (ny, sym))
        return
    full, tw_full, _ = _gen(_mesh_dict(d, False))
    half, tw_half, w_half = _gen(_mesh_dict(d, True))
    # the dictionary (incl. a user's offset array) is left as it was, and a second call gives the same mesh
    from oasv.setups import mesh_hashes

    md_user = _mesh_dict(d, True, offset=d.get("offset"))
    h0 = mesh_hashes([md_user])
    m1, _, _ = _gen(md_user)
    m2, _, _ = _gen(md_user)
    h1 = mesh_hashes([md_user])
    out.true("repeatable", m1.shape == m2.shape and np.array_equal(m1, m2), "second generate_mesh call on the same dictionary differs")
    changed = sorted(k for k in set(h0) | set(h1) if h0.get(k) != h1.get(k))
    out.true("dictionary_untouched", not changed, "generate_mesh changed the user's dictionary: %s" % changed)
    ny2 = (ny + 1) // 2
    span = float(np.ptp(full[:, :, 1])) if crm else float(d["span"])
    ext = max(span, float(np.ptp(full[:, :, 0])))
    if not out.true("shape", full.shape == (nx, ny, 3) and half.shape == (nx, ny2, 3),
                    "shapes %s / %s for num_x=%d num_y=%d" % (full.shape, half.shape, nx, ny)):
        return
    if not out.true("finite", np.all(np.isfinite(full)) and np.all(np.isfinite(half))):
        return
    ordered(out, "full", full)
    ordered(out, "half", half)
    out.close("streamwise_sections", full[:, :, 1], np.broadcast_to(full[0, :, 1], (nx, ny)), rtol=RT, scale=span)
    mid = ny2 - 1
    out.le("root_on_y0", float(np.max(np.abs(full[:, mid, 1]))), RT * span)
    out.close("mirror_symmetry", full, mirror(full), rtol=RT, scale=ext)
    out.true("half_is_left_part_of_full", np.array_equal(half, full[:, :ny2, :]), "half mesh != first (num_y+1)/2 columns of the full mesh")
    out.true("half_is_left", bool(np.all(half[:, :, 1] <= RT * span)), "symmetric half mesh is not the y<=0 half")
    out.close("getFullMesh(left)", getFullMesh(left_mesh=half), full, rtol=RT, scale=ext)
    out.close("getFullMesh(right)", getFullMesh(right_mesh=mirror(half)), full, rtol=RT, scale=ext)
    # spacing laws: spanwise stations of the left half (tip first) and chordwise fractions
    eta = -full[0, :ny2, 1] / (0.5 * span)
    # CRM: y is tabulated against eta with ~7 digits (measured 5e-7), hence the looser absolute tolerance
    # (the uCRM table lists eta with 3 digits only: its y follows the table, checked below, not the blend law itself)
    if d["wing_type"] != "uCRM_based":
        out.close("crm/span_spacing_blend" if crm else "span_spacing_blend", eta, blend_span(ny2, float(d["span_cos"])), rtol=0.0,
                  atol=(1e-5 if crm else RT), scale=1.0)
    if crm:
        # documented construction, restated: leading edge and chord of every station are the tabulated slices (inches)
        # interpolated linearly at the blended eta; jig shapes drop the z deflection
        from openaerostruct.geometry.CRM_definitions import get_crm_points

        raw = np.array(get_crm_points(d["wing_type"]), float)
        lins = blend_span(ny2, float(d["span_cos"]))[::-1]  # root -> tip
        flat = "jig" in d["wing_type"] or d["wing_type"] == "CRM"
        le = np.stack([np.interp(lins, raw[:, 0], raw[:, 1]), np.interp(lins, raw[:, 0], raw[:, 2]),
                       np.zeros(ny2) if flat else np.interp(lins, raw[:, 0], raw[:, 3])], axis=1) * 0.0254
        ch = np.interp(lins, raw[:, 0], raw[:, 5]) * 0.0254
        right = full[:, ny2 - 1:, :]
        out.close("crm/leading_edge_interpolates_table", right[0], le, rtol=1e-12, scale=ext)
        out.close("crm/chord_interpolates_table", right[-1, :, 0] - right[0, :, 0], ch, rtol=1e-12, scale=ext)
        out.close("crm/trailing_edge_same_y_z", right[-1, :, 1:], le[:, 1:], rtol=1e-12, scale=ext)
    w = (full[:, :, 0] - full[:1, :, 0]) / (full[-1:, :, 0] - full[:1, :, 0])
    out.close("chord_spacing_blend", w, np.broadcast_to(blend_chord(nx, float(d["chord_cos"]))[:, None], (nx, ny)), rtol=0.0,
              atol=1e-11, scale=1.0)
    if not crm:
        out.le("rect/span", abs((full[0, -1, 1] - full[0, 0, 1]) - d["span"]), RT * d["span"])
        out.close("rect/chord", full[-1, :, 0] - full[0, :, 0], np.full(ny, float(d["root_chord"])), rtol=RT)
        out.le("rect/flat", float(np.max(np.abs(full[:, :, 2]))), 0.0)
    else:
        n = int(d["num_twist_cp"])
        out.true("crm/twist_length", tw_full is not None and len(tw_full) == n and len(tw_half) == n,
                 "twist lengths %s / %s for num_twist_cp=%d" % (None if tw_full is None else len(tw_full),
                                                                 None if tw_half is None else len(tw_half), n))
        bare, _, _ = _gen(_mesh_dict(d, False, with_span_keys=False))
        out.true("crm/span_chord_keys_ignored", np.array_equal(bare, full), "span/root_chord keys changed the CRM mesh")
        if d["wing_type"] == "CRM":
            out.true("crm/ignored_keys_warning", any("ignored for the CRM" in str(x.message) for x in w_half),
                     "no warning that span/root_chord are ignored")
        if "jig" in d["wing_type"] or d["wing_type"] == "CRM":
            out.le("crm/jig_flat", float(np.max(np.abs(full[:, :, 2]))), 0.0)
    off = d.get("offset")
    if off is not None and any(o != 0.0 for o in off):
        out.label("offset")
        so = ext + float(np.max(np.abs(off)))
        for sym, base in ((False, full), (True, half)):
            mo, _, _ = _gen(_mesh_dict(d, sym, offset=off))
            out.close("offset_is_translation", mo, base + np.array(off, float), rtol=RT, scale=so)


def check_getfullmesh(half, out):
    """round trip on an arbitrary left half mesh (root = last column)"""
    from openaerostruct.geometry.utils import getFullMesh

    nx, ny, _ = half.shape
    sc = float(max(np.ptp(half[:, :, 0]), np.ptp(half[:, :, 1]), 1e-12))
    full = getFullMesh(left_mesh=half)
    if not out.true("gfm/shape", full.shape == (nx, 2 * ny - 1, 3), "shape %s" % (full.shape,)):
        return None
    out.true("gfm/left_part", np.array_equal(full[:, :ny], half), "left columns of the full mesh != the half mesh")
    out.close("gfm/right_part", full[:, ny - 1:], mirror(half), rtol=RT, scale=sc)
    out.close("gfm/mirror_symmetry", full, mirror(full), rtol=RT, scale=sc)
    out.close("gfm/from_right", getFullMesh(right_mesh=mirror(half)), full, rtol=RT, scale=sc)
    ordered(out, "gfm", full)
    for args in ({}, {"left_mesh": half, "right_mesh": half}):
        try:
            getFullMesh(**args)
            out.fail("gfm/bad_arguments_accepted", "getFullMesh(%s) did not raise" % sorted(args))
        except ValueError:
            pass
    return full


# ----------------------------------------------------------------------------------------------------------------
# multi-section generator


def multisec_surface(d):
    """d: symmetry, root_section, nx, ny[], span[], taper[], sweep[], root_chord, panel_keys"""
    n = len(d["ny"])
    s = {
        "name": "surface",
        "is_multi_section": True,
        "num_sections": n,
        "sec_name": ["sec%d" % i for i in range(n)],
        "symmetry": bool(d["symmetry"]),
        "S_ref_type": "wetted",
        "taper": [float(x) for x in d["taper"]],
        "span": [float(x) for x in d["span"]],
        "sweep": [float(x) for x in d["sweep"]],
        "root_chord": float(d["root_chord"]),
        "meshes": "gen-meshes",
    }
    if d.get("panel_keys"):
        s["bpanels"] = np.array([int(x) - 1 for x in d["ny"]])
        s["cpanels"] = int(d["nx"]) - 1
    else:
        s["ny"] = [int(x) for x in d["ny"]]
        s["nx"] = int(d["nx"])
    if not d["symmetry"]:
        s["root_section"] = int(d["root_section"])
    return s


def n_right_sections(d):
    n = len(d["ny"])
    if d["symmetry"] or n == 1:
        return 0
    return n - 1 - int(d["root_section"])


def check_multisection(d, out, key_for=None):
    """validity of the multi-section generator output.  key_for(section_index_or_None, key) lets a probe rename the keys
    of discrepancies that involve a given section (used for the right-of-root class)."""
    import openaerostruct.geometry.geometry_mesh_gen as mg
    from openaerostruct.geometry.geometry_unification import unify_mesh

    def K(sec, key):
        return key_for(sec, key) if key_for else key

    n = len(d["ny"])
    nx = int(d["nx"])
    sym = bool(d["symmetry"])
    root = n - 1 if (sym or n == 1) else int(d["root_section"])
    from oasv.setups import mesh_hashes

    surf = multisec_surface(d)
    h0 = mesh_hashes([surf])
    mesh, secs = mg.generate_mesh(surf)
    # generating again from the SAME dictionary gives the same meshes, and the dictionary is the user's: left as it was
    mesh_b, secs_b = mg.generate_mesh(surf)
    out.true(K(None, "ms/repeatable"), mesh_b.shape == mesh.shape and np.array_equal(mesh_b, mesh) and len(secs_b) == len(secs)
             and all(a.shape == b.shape and np.array_equal(a, b) for a, b in zip(secs, secs_b)),
             "second generation from the same dictionary differs (unified shape %s then %s)" % (mesh.shape, mesh_b.shape))
    h1 = mesh_hashes([surf])
    changed = sorted(k for k in set(h0) | set(h1) if h0.get(k) != h1.get(k))
    out.true(K(None, "ms/dictionary_untouched"), not changed, "generate_mesh changed the user's dictionary: %s" % changed)
    sc = float(sum(d["span"]) + d["root_chord"])
    nytot = sum(int(x) for x in d["ny"]) - (n - 1)
    if not out.true(K(None, "ms/shape"), len(secs) == n and all(s is not None and s.shape == (nx, int(d["ny"][i]), 3)
                                                                for i, s in enumerate(secs))
                    and mesh.shape == (nx, nytot, 3), "section / unified shapes wrong"):
        return
    if not out.true(K(None, "ms/finite"), np.all(np.isfinite(mesh)) and all(np.all(np.isfinite(s)) for s in secs)):
        return
    for i, s in enumerate(secs):
        inboard, outboard = (-1, 0) if i <= root else (0, -1)
        out.true(K(i, "ms/x_increasing_chordwise"), np.all(np.diff(s[:, :, 0], axis=0) > 0), "section %d" % i)
        out.true(K(i, "ms/y_increasing_spanwise"), np.all(np.diff(s[:, :, 1], axis=1) > 0), "section %d" % i)
        out.le(K(i, "ms/flat"), float(np.max(np.abs(s[:, :, 2]))), 0.0)
        out.le(K(i, "ms/section_span"), abs(float(s[0, -1, 1] - s[0, 0, 1]) - d["span"][i]), RT * sc)
        c_in = s[-1, inboard, 0] - s[0, inboard, 0]
        c_out = s[-1, outboard, 0] - s[0, outboard, 0]
        out.le(K(i, "ms/section_taper"), abs(c_out - d["taper"][i] * c_in), RT * sc, "section %d: tip/root chord %.6g/%.6g, taper %.6g"
               % (i, c_out, c_in, d["taper"][i]))
        # trapezoid: every chordwise line is straight between the two section edges
        y = s[0, :, 1]
        t = (y - y[0]) / (y[-1] - y[0])
        lin = s[:, :1, 0] * (1.0 - t)[None, :] + s[:, -1:, 0] * t[None, :]
        out.close(K(i, "ms/straight_edges"), s[:, :, 0], lin, rtol=RT, scale=sc)
        if i < n - 1:
            j = i + 1  # interface i | i+1 belongs to the section farther from the root
            owner = i if i < root else j
            out.close(K(owner, "ms/edges_coincide"), s[:, -1, :], secs[j][:, 0, :], rtol=RT, scale=sc,
                      msg="sections %d|%d" % (i, j))
    r = secs[root]
    out.le(K(None, "ms/root_chord"), abs((r[-1, -1, 0] - r[0, -1, 0]) - d["root_chord"]), RT * sc)
    out.le(K(None, "ms/root_edge_on_y0"), float(np.max(np.abs(r[:, -1, 1]))), RT * sc)
    right = root + 1 if root < n - 1 else None
    uni = unify_mesh([{"mesh": s} for s in secs])
    out.close(K(right, "ms/stitched_equals_unify_mesh"), mesh, uni, rtol=RT, scale=sc)
    out.true(K(right, "ms/unified_y_increasing"), np.all(np.diff(mesh[:, :, 1], axis=1) > 0), "unified mesh: y not increasing")
    out.le(K(right, "ms/total_span"), abs(float(mesh[0, -1, 1] - mesh[0, 0, 1]) - float(sum(d["span"]))), RT * sc)


# ----------------------------------------------------------------------------------------------------------------
# unification of C0 sections cut out of a contiguous mesh


def split_columns(ny, cuts):
    idx = [0] + sorted(set(int(c) for c in cuts if 0 < int(c) < ny - 1)) + [ny - 1]
    return idx


def split_mesh(m, cuts):
    idx = split_columns(m.shape[1], cuts)
    return [np.array(m[:, idx[i]: idx[i + 1] + 1, :], float) for i in range(len(idx) - 1)]


def check_unify_function(m, cuts, shift, out):
    from openaerostruct.geometry.geometry_unification import unify_mesh

    secs = split_mesh(m, cuts)
    sc = float(max(np.ptp(m[:, :, 0]), np.ptp(m[:, :, 1]), 1e-12))
    uni = unify_mesh([{"mesh": s} for s in secs], shift_uni_mesh=bool(shift))
    if out.true("unify/shape", uni.shape == m.shape, "%s vs %s" % (uni.shape, m.shape)):
        out.close("unify/node_for_node", uni, m, rtol=RT, scale=sc)
    return secs
