"""C04  A half-span symmetric model is equivalent to the full-span model (DESIGN.md section 4, C04)."""
import numpy as np
from hypothesis import strategies as st

from oasv import strategies as S
from oasv.core import Outcome, Sub
from oasv.layouts import place_surfaces
from oasv.meshes import build_mesh, full_from_half
from oasv.models import aero_direct, aero_surface, aerostruct_problem, struct_surface

RULE = (
    "Hypothesis draws mirror-symmetric configurations.  aero_pair: 1-3 surfaces given as left or right halves (all planform "
    "families), options viscous/wave/compressible/ground effect/wetted-projected area, alpha, Mach, v, rho at zero sideslip; the "
    "half model (symmetry=True) is compared with the full-span model built by mirroring every half mesh (symmetry=False); in "
    "ground effect the full-span counterpart is the free-air full-span surface plus its explicit full-span image.  "
    "aerostruct_pair: left-half tube / wingbox aerostructural models (weight relief, distributed fuel, point masses with "
    "thrust, viscous) against the mirrored full-span model with mirrored point masses and constant B-spline distributions.  "
    "offplane_probe: a symmetric surface whose root edge is off the symmetry plane against the two explicit halves.  "
    "non-trivial = lifting case with >= 2 spanwise panels per half; distinct by descriptor digest."
)
ASSUMPTIONS = [
    "tolerance 1e-9 relative (measured floor 5e-16 aero, 3e-15 aerostructural); aerostructural 1e-7 (coupled solver atol 1e-12)",
    "KS failure is not compared (N vs 2N stresses differ by ln2/rho by definition); exact failure, vonmises, disp are",
    "B-spline control points constant when half and full models are compared",
    "structural half models are left halves (FEM clamps the last node of a symmetric surface)",
    "point masses/thrusts: tolerance widened by 20x the share of each mass that the documented all-node inverse-distance "
    "weighting leaks to the other half in the full-span model (recomputed from the documented weights)",
    "wave drag: CD-CDw is compared in the main search; CDw itself is judged by the probe for known finding KF-C04-wave",
]


@st.composite
def aero_cfg(draw, offplane=False):
    surfaces = draw(S.aero_config(max_surf=3, kinds=("left", "right"), nx=(2, 4), nyh=(3, 5), max_panels=24))
    opts = [
        dict(
            with_viscous=draw(st.booleans()),
            with_wave=draw(st.booleans()),
            S_ref_type=draw(st.sampled_from(["wetted", "projected"])),
            k_lam=draw(st.sampled_from([0.05, 0.0, 0.4])),
            toc=draw(S.fl(0.05, 0.2, 0.12)),
        )
        for _ in surfaces
    ]
    compressible = draw(st.booleans())
    d = dict(
        surfaces=surfaces,
        opts=opts,
        compressible=compressible,
        ground=False if compressible else draw(st.booleans()),
        clear=draw(S.logfl(-1.0, 1.5, 1.0)),
        alpha=draw(S.fl(-10.0, 12.0, 5.0, 0.0)),
        Mach=draw(S.fl(0.1, 0.9, 0.3, 0.84)),
        v=draw(S.fl(10.0, 250.0, 100.0)),
        rho=draw(S.fl(0.1, 1.5, 1.0)),
        cg=[draw(S.fl(-3.0, 3.0, 0.0)), 0.0, draw(S.fl(-2.0, 2.0, 0.0))],
        # the symmetry flag as a numpy boolean (what `mesh[:, :, 1].max() <= 0` gives) instead of a Python bool
        numpy_flags=draw(st.sampled_from([False, False, True])),
    )
    if offplane:
        d["gap"] = draw(S.fl(0.05, 3.0, 1.0))
        d["ground"] = False
    return d


def _reflect(m, alpha_deg, h):
    a = np.radians(alpha_deg)
    n = np.array([np.sin(a), 0.0, -np.cos(a)])
    d = (m - n * h) @ n
    return m - 2.0 * d[..., None] * n


def _surf_kw(o):
    return dict(with_viscous=o["with_viscous"], with_wave=o["with_wave"], S_ref_type=o["S_ref_type"], k_lam=o["k_lam"])


def aero_verdict(desc):
    out = Outcome()
    alpha = desc["alpha"]
    fl = dict(alpha=alpha, beta=0.0, v=desc["v"], rho=desc["rho"], Mach=desc["Mach"], cg=desc["cg"])
    halves = place_surfaces(desc["surfaces"], alpha)
    ns = len(halves)
    tocs = [o["toc"] for o in desc["opts"]]
    a_ = np.radians(alpha)
    n = np.array([np.sin(a_), 0.0, -np.cos(a_)])
    b = max(float(np.max(np.abs(m[:, :, 1]))) for m in halves)
    h = max(float(np.max(m @ n)) for m in halves) + desc["clear"] * b
    ground = desc["ground"]
    T, F = (np.bool_(True), np.bool_(False)) if desc.get("numpy_flags") else (True, False)
    if desc.get("numpy_flags"):
        out.label("symmetry_flag=numpy.bool_")
    sh = [aero_surface("s%d" % k, m, T, groundplane=ground, **_surf_kw(desc["opts"][k])) for k, m in enumerate(halves)]
    if not ground:
        for s in sh:
            del s["groundplane"]
    ph = aero_direct(sh, fl, compressible=desc["compressible"], height=h if ground else None, t_over_c=tocs)
    ph.run_model()
    fulls = [full_from_half(m) for m in halves]
    sf = [aero_surface("s%d" % k, m, F, **_surf_kw(desc["opts"][k])) for k, m in enumerate(fulls)]
    tf = list(tocs)
    if ground:
        sf += [aero_surface("i%d" % k, _reflect(m, alpha, h), False) for k, m in enumerate(fulls)]
        tf += tocs
    pf = aero_direct(sf, fl, compressible=desc["compressible"], t_over_c=tf)
    pf.run_model()
    P = "aero_point_0."
    Fh = [ph.get_val(P + "aero_states.s%d_sec_forces" % k) for k in range(ns)]
    fscale = max(float(np.max(np.abs(f))) for f in Fh)
    for k in range(ns):
        ny = halves[k].shape[1]
        left = desc["surfaces"][k]["mesh"]["kind"] == "left"
        Ff = pf.get_val(P + "aero_states.s%d_sec_forces" % k)
        Fm = Ff[:, : ny - 1] if left else Ff[:, ny - 1 :]
        out.close("aero/sec_forces", Fh[k], Fm, rtol=1e-9, scale=fscale)
        # the other half must be the mirror image
        Fo = Ff[:, ny - 1 :][:, ::-1] if left else Ff[:, : ny - 1][:, ::-1]
        out.close("aero/full_model_mirror_symmetric", Fo * np.array([1.0, -1.0, 1.0]), Fm, rtol=1e-9, scale=fscale)
        for c in ("CL", "CDi", "CDv", "L", "D"):
            out.close("aero/" + c, ph.get_val(P + "s%d_perf.%s" % (k, c)), pf.get_val(P + "s%d_perf.%s" % (k, c)), rtol=1e-9,
                      atol=1e-13)
        out.close("aero/S_ref", ph.get_val(P + "s%d.S_ref" % k), pf.get_val(P + "s%d.S_ref" % k), rtol=1e-12)
        cdw_h = float(ph.get_val(P + "s%d_perf.CDw" % k)[0])
        cdw_f = float(pf.get_val(P + "s%d_perf.CDw" % k)[0])
        out.close("aero/CD_minus_CDw", ph.get_val(P + "s%d_perf.CD" % k) - cdw_h, pf.get_val(P + "s%d_perf.CD" % k) - cdw_f,
                  rtol=1e-9, atol=1e-13)
        if desc["opts"][k]["with_wave"]:
            out.label("wave-on")
            if cdw_f > 1e-12 or cdw_h > 1e-12:
                out.label("wave-active")
                if abs(cdw_h - cdw_f) <= 1e-9 * max(cdw_f, 1e-12):
                    pass
                elif abs(cdw_h - 2.0 * cdw_f) <= 1e-9 * cdw_f:
                    out.fail("KF-C04-wave:CDw_half_is_twice_CDw_full", "CDw half %.6e = 2 x full %.6e" % (cdw_h, cdw_f))
                else:
                    out.fail("aero/CDw", "CDw half %.6e vs full %.6e (neither equal nor the known factor 2)" % (cdw_h, cdw_f))
        else:
            out.true("aero/CDw_off_zero", cdw_h == 0.0 and cdw_f == 0.0)
    # totals: remove the known CDw doubling from the half model's totals before comparing
    Stot = sum(float(ph.get_val(P + "s%d.S_ref" % k)[0]) for k in range(ns))
    corr_h = sum(float(ph.get_val(P + "s%d_perf.CDw" % k)[0]) * float(ph.get_val(P + "s%d.S_ref" % k)[0]) for k in range(ns)) / Stot
    Stot_f = sum(float(pf.get_val(P + "s%d.S_ref" % k)[0]) for k in range(ns))
    corr_f = sum(float(pf.get_val(P + "s%d_perf.CDw" % k)[0]) * float(pf.get_val(P + "s%d.S_ref" % k)[0]) for k in range(ns)) / Stot_f
    if not ground:
        out.close("aero/CL_total", ph.get_val(P + "CL"), pf.get_val(P + "CL"), rtol=1e-9, atol=1e-13)
        out.close("aero/CD_total_minus_wave", ph.get_val(P + "CD") - corr_h, pf.get_val(P + "CD") - corr_f, rtol=1e-9, atol=1e-13)
        cmh, cmf = ph.get_val(P + "CM"), pf.get_val(P + "CM")
        cms = max(abs(cmf[1]), abs(cmh[1]), 1e-6)
        out.close("aero/CM_pitch", cmh[1], cmf[1], rtol=1e-9, atol=1e-12)
        out.le("aero/CM_roll_yaw_zero_full", max(abs(cmf[0]), abs(cmf[2])), 1e-9 * cms + 1e-12)
        out.le("aero/CM_roll_yaw_zero_half", max(abs(cmh[0]), abs(cmh[2])), 1e-9 * cms + 1e-12)
    out.label("nsurf=%d" % ns)
    for s in desc["surfaces"]:
        out.label("kind=" + s["mesh"]["kind"])
    for name in ("compressible", "ground"):
        if desc[name]:
            out.label(name)
    if any(o["with_viscous"] for o in desc["opts"]):
        out.label("viscous")
    if any(o["S_ref_type"] == "projected" for o in desc["opts"]):
        out.label("projected")
    Ftot = np.abs(sum(f.sum(axis=(0, 1)) for f in Fh)).max()
    out.nontrivial = bool(Ftot > 1e-9 * 0.5 * desc["rho"] * desc["v"] ** 2 * Stot)
    return out


# ------------------------------------------------------------------------------------------------------------------
# off-plane probe (known finding KF-C04-offplane)


def offplane_verdict(desc):
    """A symmetric surface whose root edge is off y=0 (e.g. a twin tail) against its two explicit halves."""
    out = Outcome()
    alpha = desc["alpha"]
    fl = dict(alpha=alpha, beta=0.0, v=desc["v"], rho=desc["rho"], Mach=desc["Mach"], cg=desc["cg"])
    sd = desc["surfaces"][0]
    m = build_mesh(sd["mesh"])
    left = sd["mesh"]["kind"] == "left"
    m = m + np.array([0.0, -desc["gap"] if left else desc["gap"], 0.0])
    o = desc["opts"][0]
    sh = [aero_surface("s0", m, True)]
    ph = aero_direct(sh, fl)
    ph.run_model()
    mir = m[:, ::-1, :].copy()
    mir[:, :, 1] *= -1.0
    pf = aero_direct([aero_surface("s0", m, False), aero_surface("m0", mir, False)], fl)
    pf.run_model()
    Fh = ph.get_val("aero_point_0.aero_states.s0_sec_forces")
    Ff = pf.get_val("aero_point_0.aero_states.s0_sec_forces")
    sc = float(np.max(np.abs(Ff)))
    err = float(np.max(np.abs(Fh - Ff)))
    if err > 1e-9 * sc:
        out.fail("KF-C04-offplane:symmetric_surface_off_plane_forces_differ", "relative force difference %.3e (gap %.3g)" % (err / sc, desc["gap"]))
    out.label("offplane")
    out.nontrivial = bool(sc > 0)
    return out


# ------------------------------------------------------------------------------------------------------------------
# aerostructural pair


@st.composite
def as_cfg(draw):
    model = draw(st.sampled_from(["tube", "wingbox"]))
    md = draw(S.mesh(kinds=("left",), nx=(2, 3), nyh=(3, 5), noise=False, winglet=False, root_offsets=True, max_twist=4.0,
                     max_camber=0.0))
    md["side"]["chord"] = max(md["side"]["chord"], 0.8)
    md["side"]["taper"] = max(md["side"]["taper"], 0.4)
    md["root_twist"] = 0.0
    d = dict(
        model=model,
        mesh=md,
        weight_relief=draw(st.booleans()),
        fuel=draw(st.booleans()) if model == "wingbox" else False,
        viscous=draw(st.booleans()),
        n_masses=draw(st.sampled_from([0, 0, 1, 2])),
        masses=[draw(S.fl(5.0, 200.0, 50.0)) for _ in range(2)],
        mass_loc=[[draw(S.fl(-1.0, 2.0, 0.5)), draw(S.fl(0.05, 0.9, 0.4)), draw(S.fl(-0.5, 0.5, 0.0))] for _ in range(2)],
        thrust=[draw(S.fl(0.0, 2000.0, 0.0)) for _ in range(2)],
        alpha=draw(S.fl(1.0, 8.0, 3.0)),
        v=draw(S.fl(30.0, 120.0, 80.0)),
        rho=draw(S.fl(0.3, 1.2, 1.0)),
        Mach=draw(S.fl(0.1, 0.8, 0.3)),
        load_factor=draw(S.fl(0.5, 2.5, 1.0)),
        compressible=draw(st.booleans()),
        exact=draw(st.booleans()),
        ref_axis_pos=draw(st.sampled_from([0.25, 0.0, 0.5, 1.0])),
        twist=draw(S.fl(-3.0, 3.0, 0.0)),
        numpy_flags=draw(st.sampled_from([False, False, True])),
    )
    return d


def _as_surface(desc, mesh, symmetry, nm):
    kw = dict(struct_weight_relief=desc["weight_relief"], with_viscous=desc["viscous"], exact_failure_constraint=desc["exact"],
              ref_axis_pos=desc["ref_axis_pos"])
    if desc["fuel"]:
        kw["distributed_fuel_weight"] = True
    if nm:
        kw["n_point_masses"] = nm
    s = struct_surface("wing", mesh, symmetry, desc["model"], **kw)
    s["twist_cp"] = desc["twist"] * np.ones(2 if symmetry else 3)
    # stiff enough for convergence at every generated dynamic pressure
    b = float(np.max(np.abs(mesh[:, :, 1])))
    c = float(np.max(mesh[-1, :, 0] - mesh[0, :, 0]))
    if desc["model"] == "tube":
        s["thickness_cp"] = 0.02 * c * np.ones(len(s["thickness_cp"]))
        s["E"] = 70e9 * max(1.0, (b / (8.0 * c)) ** 3)
        s["G"] = 0.4 * s["E"]
    else:
        s["E"] = 73e9 * max(1.0, (b / (8.0 * c)) ** 3)
        s["G"] = 0.4 * s["E"]
    return s


def _pm_loads(nodes, locs, masses, thrusts, load_factor):
    """nodal loads (n, 6) of point masses and engine thrusts by the documented rule: every node receives the share
    w_i / sum(w), w_i = 1 / (dy_i^10 + 1e-10), of each weight (downwards) and thrust (forwards), plus its moment about the node"""
    g = 9.80665
    L = np.zeros((len(nodes), 6))
    for loc, m, t in zip(locs, masses, thrusts):
        r = np.asarray(loc, float)[None, :] - nodes
        w = 1.0 / (r[:, 1] ** 10 + 1e-10)
        w = w / np.sum(w)
        F = np.outer(w, [0.0, 0.0, -1.0]) * g * load_factor * m + np.outer(w, [-1.0, 0.0, 0.0]) * t
        L[:, :3] += F
        L[:, 3:] += np.cross(r, F)
    return L


def as_verdict(desc):
    out = Outcome()
    half = build_mesh(desc["mesh"])
    full = full_from_half(half)
    ny = half.shape[1]
    b = float(np.max(np.abs(half[:, :, 1])))
    nm = desc["n_masses"]
    fl = dict(alpha=desc["alpha"], v=desc["v"], rho=desc["rho"], Mach=desc["Mach"], load_factor=desc["load_factor"])
    locs = []
    for i in range(nm):
        fx, fy, fz = desc["mass_loc"][i]
        locs.append([float(half[0, -1, 0]) + fx, -fy * b, float(half[0, -1, 2]) + fz])
    flh = dict(fl)
    flf = dict(fl)
    if nm:
        flh.update(point_masses=desc["masses"][:nm], point_mass_locations=locs, engine_thrusts=desc["thrust"][:nm])
        mir = [[x, -y, z] for x, y, z in locs]
        flf.update(point_masses=desc["masses"][:nm] * 2, point_mass_locations=locs + mir, engine_thrusts=desc["thrust"][:nm] * 2)
    T, F = (np.bool_(True), np.bool_(False)) if desc.get("numpy_flags") else (True, False)
    if desc.get("numpy_flags"):
        out.label("symmetry_flag=numpy.bool_")
    sh = _as_surface(desc, half, T, nm)
    sf = _as_surface(desc, full, F, 2 * nm)
    from oasv.models import run_coupled

    ph = aerostruct_problem([sh], flh, compressible=desc["compressible"])
    run_coupled(ph)
    pf = aerostruct_problem([sf], flf, compressible=desc["compressible"])
    run_coupled(pf)
    if float(ph.get_val("AS_point_0.CL")[0]) < 1e-3:
        from oasv.core import Discard

        raise Discard("non-lifting aerostructural point (Breguet fuel burn, cg, CM undefined at CL <= 0)")
    rt = 1e-7
    # Point masses / thrusts are smeared over ALL structural nodes with normalised weights 1/(dy^10 + 1e-10) (documented in
    # ComputePointMassLoads): in the full-span model a share eps of each mass leaks to the nodes of the other half, so the
    # two models differ by O(eps) by construction.  eps is recomputed here from the documented weighting and added.
    if nm:
        yf = full[0, :, 1]
        eps = 0.0
        for x, y, z in locs:
            w = 1.0 / ((y - yf) ** 10 + 1e-10)
            eps = max(eps, float(np.sum(w[ny:]) / np.sum(w)))
        # The by-construction difference is predicted, not guessed: the nodal loads of the documented rule are recomputed
        # here for the half model (own masses, own nodes) and for the full model (both masses, all nodes); their difference
        # on the nodes of the modelled half is applied ALONE to the half structure, and the displacement / stress it causes,
        # relative to the converged net displacement / stress, is the predicted relative difference of the two models.
        # (A share-of-mass measure is not enough: most of an inboard mass goes to the clamped root node and causes nothing,
        # so the leaked share must be compared with what reaches the free nodes; and when lift and weight nearly cancel
        # the net response is small.)  Factor 20 covers the aeroelastic feedback.
        from oasv.models import struct_alone_problem

        nodes_h = np.array(ph.get_val("wing.nodes"), float)
        nodes_f = np.array(pf.get_val("wing.nodes"), float)
        Lh = _pm_loads(nodes_h, locs, desc["masses"][:nm], desc["thrust"][:nm], desc["load_factor"])
        Lf = _pm_loads(nodes_f, locs + [[x, -y, z] for x, y, z in locs], desc["masses"][:nm] * 2, desc["thrust"][:nm] * 2,
                       desc["load_factor"])
        sm = dict(sh)
        sm["struct_weight_relief"] = False
        sm["distributed_fuel_weight"] = False
        sm.pop("n_point_masses", None)
        pm_ = struct_alone_problem(sm, loads=Lf[:ny] - Lh, load_factor=0.0)
        pm_.run_model()
        d_leak = float(np.max(np.abs(pm_.get_val("disp"))))
        v_leak = float(np.max(np.abs(pm_.get_val("vonmises"))))
        pm_.cleanup()
        d_net = max(float(np.max(np.abs(ph.get_val("AS_point_0.coupled.wing.disp")))), 1e-300)
        v_net = max(float(np.max(np.abs(ph.get_val("AS_point_0.wing_perf.vonmises")))), 1e-300)
        pred = max(d_leak / d_net, v_leak / v_net)
        rt = rt + 20.0 * pred
        out.info["pointmass_leak"] = eps
        out.info["pointmass_predicted_rel_difference"] = pred
        out.label("leak>1e-6" if eps > 1e-6 else "leak<=1e-6")
        out.label("predicted_diff>1e-4" if pred > 1e-4 else "predicted_diff<=1e-4")
    A = "AS_point_0."
    Fh = ph.get_val(A + "coupled.aero_states.wing_sec_forces")
    Ff = pf.get_val(A + "coupled.aero_states.wing_sec_forces")
    out.close("as/sec_forces", Fh, Ff[:, : ny - 1], rtol=rt)
    out.close("as/def_mesh", ph.get_val(A + "coupled.wing.def_mesh"), pf.get_val(A + "coupled.wing.def_mesh")[:, :ny], rtol=rt)
    dh = ph.get_val(A + "coupled.wing.disp")
    df = pf.get_val(A + "coupled.wing.disp")
    out.close("as/disp", dh, df[:ny], rtol=rt)
    lh = ph.get_val(A + "coupled.wing_loads.loads")
    lf = pf.get_val(A + "coupled.wing_loads.loads")
    out.close("as/loads", lh[: ny - 1], lf[: ny - 1], rtol=rt, scale=float(np.max(np.abs(lf))))
    vh = ph.get_val(A + "wing_perf.vonmises")
    vf = pf.get_val(A + "wing_perf.vonmises")
    out.close("as/vonmises", vh, vf[: ny - 1], rtol=rt)
    if desc["exact"]:
        fh = ph.get_val(A + "wing_perf.failure")
        ff = pf.get_val(A + "wing_perf.failure")
        ff = ff.reshape(-1, ff.size // (2 * (ny - 1))) if ff.ndim == 1 else ff
        fh = fh.reshape(ny - 1, -1) if fh.ndim == 1 else fh
        out.close("as/failure_exact", fh, ff[: ny - 1], rtol=rt, atol=1e-9)
    for c in ("CL", "CD", "fuelburn", "L_equals_W", "total_weight", "cg"):
        # L_equals_W = (W - L) / W is a difference of two O(1) terms: its accuracy is rt of those terms, not of itself
        out.close("as/" + c, ph.get_val(A + c), pf.get_val(A + c), rtol=rt, atol=rt if c == "L_equals_W" else 1e-10)
    cmh, cmf = ph.get_val(A + "CM"), pf.get_val(A + "CM")
    # the pitching moment about the cg is a small difference of the moments of lift and drag: its accuracy is rt of THOSE
    # (coefficient x arm / MAC, arm up to a few chords), not of itself
    cl_ = abs(float(ph.get_val(A + "CL")[0])) + abs(float(ph.get_val(A + "CD")[0]))
    out.close("as/CM_pitch", cmh[1], cmf[1], rtol=rt, atol=1e-9 + 10.0 * rt * cl_)
    out.le("as/CM_roll_yaw_zero", max(abs(cmf[0]), abs(cmf[2])), 1e-7 * max(abs(cmf[1]), 1e-3))
    for c in ("structural_mass", "cg_location"):
        out.close("as/" + c, ph.get_val("wing." + c), pf.get_val("wing." + c), rtol=1e-10, atol=1e-10)
    out.close("as/S_ref", ph.get_val(A + "coupled.wing.S_ref"), pf.get_val(A + "coupled.wing.S_ref"), rtol=rt)
    out.label("model=" + desc["model"])
    for k in ("weight_relief", "fuel", "viscous", "compressible", "exact"):
        if desc[k]:
            out.label(k)
    out.label("masses=%d" % nm)
    out.nontrivial = bool(abs(float(ph.get_val(A + "CL")[0])) > 1e-6)
    return out


SUBS = [
    Sub("aero_pair", aero_cfg(), aero_verdict, quick=720, thorough=12000),
    Sub("aerostruct_pair", as_cfg(), as_verdict, quick=200, thorough=4000),
    Sub("offplane_probe", aero_cfg(offplane=True), offplane_verdict, quick=16, thorough=100, max_shards=2),
]
