#!/usr/bin/env python3
"""tools/cover_report.py <cover_dir> [--repo /repo] [--list] : merge the files written under OASV_COVER=<cover_dir> and
report, per source file of openaerostruct (tests, docs, examples excluded), executable lines / lines reached, and with
--list the unreached line ranges.  Usage:
    OASV_COVER=/some/dir ./check C01 --no-evidence ; ... ; python3 tools/cover_report.py /some/dir --list"""
import os
import sys


def exec_lines(path):
    src = open(path, "rb").read()
    try:
        code = compile(src, path, "exec")
    except SyntaxError:
        return set()
    out = set()
    stack = [code]
    while stack:
        c = stack.pop()
        for _, _, ln in c.co_lines():
            if ln:
                out.add(ln)
        for k in c.co_consts:
            if hasattr(k, "co_lines"):
                stack.append(k)
    return out


def ranges(lines):
    lines = sorted(lines)
    out, start, prev = [], None, None
    for ln in lines:
        if start is None:
            start = prev = ln
        elif ln <= prev + 2:
            prev = ln
        else:
            out.append((start, prev))
            start = prev = ln
    if start is not None:
        out.append((start, prev))
    return ", ".join("%d" % a if a == b else "%d-%d" % (a, b) for a, b in out)


def main():
    d = sys.argv[1]
    repo = sys.argv[sys.argv.index("--repo") + 1] if "--repo" in sys.argv else "/repo"
    root = os.path.join(repo, "openaerostruct")
    hits = {}
    for fn in os.listdir(d):
        for l in open(os.path.join(d, fn)):
            f, ln = l.rsplit(":", 1)
            hits.setdefault(f, set()).add(int(ln))
    tot_e = tot_h = 0
    rows = []
    for dp, dn, fns in os.walk(root):
        if any(x in dp for x in ("/tests", "/docs", "/examples")):
            continue
        for fn in fns:
            if fn.endswith(".py"):
                p = os.path.join(dp, fn)
                rel = os.path.relpath(p, root)
                ex = exec_lines(p)
                h = hits.get(rel, set()) & ex
                rows.append((rel, len(ex), len(h), ex - h))
                tot_e += len(ex)
                tot_h += len(h)
    for rel, e, h, miss in sorted(rows):
        print("%-55s %4d/%4d %5.1f%%" % (rel, h, e, 100.0 * h / max(e, 1)) + ("   missed: " + ranges(miss) if "--list" in sys.argv and miss else ""))
    print("TOTAL %d/%d = %.1f%%" % (tot_h, tot_e, 100.0 * tot_h / max(tot_e, 1)))


if __name__ == "__main__":
    main()
