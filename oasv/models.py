"""Builders of OpenMDAO problems around the public OpenAeroStruct groups (descriptor -> Problem)."""
import numpy as np
import openmdao.api as om


def aero_surface(name, mesh, symmetry, **kw):
    s = {
        "name": name,
        # a numpy boolean is handed on as it is (user code often derives the flag from a comparison on the mesh)
        "symmetry": symmetry if isinstance(symmetry, np.bool_) else bool(symmetry),
        "S_ref_type": "wetted",
        "mesh": np.array(mesh, dtype=float),
        "CL0": 0.0,
        "CD0": 0.0,
        "k_lam": 0.05,
        "t_over_c_cp": np.array([0.12]),
        "c_max_t": 0.303,
        "with_viscous": False,
        "with_wave": False,
    }
    s.update(kw)
    return s


# the user may declare his independent variables in any compatible unit; OpenMDAO converts at the connection
BASE_UNITS = dict(v="m/s", alpha="deg", beta="deg", re="1/m", rho="kg/m**3", cg="m", height_agl="m", omega="rad/s", mesh="m")


def _in_units(val, base, unit):
    """value given in the harness's base unit expressed in `unit`, with OpenMDAO's own conversion table (its slug/lbf
    entries are self-consistent only to 3.6e-9, so hand-written factors would not round-trip)"""
    from openmdao.utils.units import convert_units

    val = np.asarray(val, float)
    return val if unit == base else convert_units(val, base, unit)


def aero_direct(surfaces, flow, compressible=False, height=None, t_over_c=None, setup=True, units=None):
    """AeroPoint fed directly with meshes (no Geometry group).  flow: dict alpha,beta,v,rho,Mach,re[,omega,cg]
    units: optional {variable: unit} - the independent variable is then DECLARED in that unit (same physical value)"""
    from openaerostruct.aerodynamics.aero_groups import AeroPoint

    u = dict(BASE_UNITS)
    u.update(units or {})
    prob = om.Problem(reports=False)
    ivc = om.IndepVarComp()
    ivc.add_output("v", val=_in_units(flow.get("v", 100.0), BASE_UNITS["v"], u["v"]), units=u["v"])
    ivc.add_output("alpha", val=_in_units(flow.get("alpha", 5.0), BASE_UNITS["alpha"], u["alpha"]), units=u["alpha"])
    ivc.add_output("beta", val=_in_units(flow.get("beta", 0.0), BASE_UNITS["beta"], u["beta"]), units=u["beta"])
    ivc.add_output("Mach_number", val=flow.get("Mach", 0.3))
    ivc.add_output("re", val=_in_units(flow.get("re", 1e6), BASE_UNITS["re"], u["re"]), units=u["re"])
    ivc.add_output("rho", val=_in_units(flow.get("rho", 1.0), BASE_UNITS["rho"], u["rho"]), units=u["rho"])
    ivc.add_output("cg", val=_in_units(np.array(flow.get("cg", [0.0, 0.0, 0.0]), float), BASE_UNITS["cg"], u["cg"]), units=u["cg"])
    rotational = "omega" in flow
    if height is not None:
        ivc.add_output("height_agl", val=_in_units(height, BASE_UNITS["height_agl"], u["height_agl"]), units=u["height_agl"])
    if rotational:
        ivc.add_output("omega", val=_in_units(np.array(flow["omega"], float), BASE_UNITS["omega"], u["omega"]), units=u["omega"])
    for i, s in enumerate(surfaces):
        m = s["mesh"]
        ivc.add_output(s["name"] + "_mesh", val=_in_units(m, BASE_UNITS["mesh"], u["mesh"]), units=u["mesh"])
        toc = 0.12 if t_over_c is None else t_over_c[i]
        ivc.add_output(s["name"] + "_toc", val=toc * np.ones(m.shape[1] - 1))
    prob.model.add_subsystem("prob_vars", ivc, promotes=["*"])
    prom = ["v", "alpha", "beta", "Mach_number", "re", "rho", "cg"]
    if height is not None:
        prom.append("height_agl")
    if rotational:
        prom.append("omega")
    prob.model.add_subsystem(
        "aero_point_0", AeroPoint(surfaces=surfaces, compressible=compressible, rotational=rotational), promotes_inputs=prom
    )
    for s in surfaces:
        n = s["name"]
        prob.model.connect(n + "_mesh", "aero_point_0." + n + ".def_mesh")
        prob.model.connect(n + "_mesh", "aero_point_0.aero_states." + n + "_def_mesh")
        prob.model.connect(n + "_toc", "aero_point_0." + n + "_perf.t_over_c")
    if setup:
        prob.setup()
    return prob


def set_flow(prob, flow):
    for k, n in (("v", "v"), ("alpha", "alpha"), ("beta", "beta"), ("Mach", "Mach_number"), ("re", "re"), ("rho", "rho")):
        if k in flow:
            prob.set_val(n, flow[k], units=BASE_UNITS.get(n))
    if "cg" in flow:
        prob.set_val("cg", np.array(flow["cg"], float), units="m")
    if "omega" in flow:
        prob.set_val("omega", np.array(flow["omega"], float), units="rad/s")


def aero_outputs(prob, surfaces, point="aero_point_0"):
    out = {}
    for s in surfaces:
        n = s["name"]
        out[n + "_sec_forces"] = prob.get_val("%s.aero_states.%s_sec_forces" % (point, n)).copy()
        for k in ("CL", "CD", "CDi", "CDv", "CDw", "L", "D"):
            out[n + "_" + k] = prob.get_val("%s.%s_perf.%s" % (point, n, k)).copy()
        out[n + "_S_ref"] = prob.get_val("%s.%s.S_ref" % (point, n)).copy()
    for k in ("CL", "CD", "CM"):
        out[k] = prob.get_val("%s.%s" % (point, k)).copy()
    out["circulations"] = prob.get_val(point + ".aero_states.circulations").copy()
    return out


# ----------------------------------------------------------------------------------------------------------------
# structures / aerostructures

_ux = np.linspace(0.1, 0.6, 11)
_uy = 0.06 * np.sqrt(1.0 - ((_ux - 0.35) / 0.45) ** 2)
WINGBOX_AIRFOIL = dict(data_x_upper=_ux.copy(), data_x_lower=_ux.copy(), data_y_upper=_uy.copy(), data_y_lower=-_uy.copy())


def wingbox_airfoil(thick=0.06, skew=0.0, x0=0.1, x1=0.6, n=11):
    """smooth closed-ish upper/lower curves with matching end abscissae (documented requirement)"""
    x = np.linspace(x0, x1, n)
    mid = 0.5 * (x0 + x1)
    half = 0.5 * (x1 - x0)
    shape = np.sqrt(np.maximum(1.0 - ((x - mid) / (1.8 * half)) ** 2, 0.0))
    yu = thick * shape * (1.0 + skew * (x - mid))
    yl = -thick * shape * (1.0 - 0.5 * skew * (x - mid))
    return dict(data_x_upper=x.copy(), data_x_lower=x.copy(), data_y_upper=yu, data_y_lower=yl)


def struct_surface(name, mesh, symmetry, model="tube", ncp=2, **kw):
    """surface dictionary for structural / aerostructural groups.  B-spline control points are constant by default."""
    s = aero_surface(name, mesh, symmetry)
    s.update(
        {
            "fem_model_type": model,
            "E": 70.0e9,
            "G": 30.0e9,
            "yield": 500.0e6 / 2.5,
            "mrho": 3.0e3,
            "fem_origin": 0.35,
            "wing_weight_ratio": 2.0,
            "struct_weight_relief": False,
            "distributed_fuel_weight": False,
            "Wf_reserve": 100.0,
            "exact_failure_constraint": False,
            "t_over_c_cp": np.array([0.12]),
            "twist_cp": np.zeros(ncp),
        }
    )
    if model == "tube":
        s["thickness_cp"] = 0.015 * np.ones(ncp)
    else:
        s.update({k: v.copy() for k, v in WINGBOX_AIRFOIL.items()})
        # documented as ignored for a wingbox (the beam axis follows from the airfoil data, which puts it at 0.35 chord here):
        # deliberately a different value, so that code reading the key for a wingbox does not go unnoticed by coincidence
        s["fem_origin"] = 0.45
        s.update(
            {
                "spar_thickness_cp": 0.006 * np.ones(ncp),
                "skin_thickness_cp": 0.01 * np.ones(ncp),
                "original_wingbox_airfoil_t_over_c": 0.12,
                "strength_factor_for_upper_skin": 1.0,
                "fuel_density": 803.0,
            }
        )
    s.update(kw)
    return s


AS_FLOW_DEFAULT = dict(v=80.0, alpha=3.0, beta=0.0, Mach=0.3, re=1e6, rho=1.0, CT=9.8e-6, R=1e6, W0=1000.0,
                       load_factor=1.0, empty_cg=[0.0, 0.0, 0.0], fuel_mass=500.0)


def aerostruct_problem(surfaces, flow=None, npts=1, compressible=False, rotational=False, setup=True, mode="auto",
                       flows=None, tighten=1e-12, force_alloc_complex=False):
    """AerostructGeometry + n AerostructPoint groups wired as in the documentation.
    flows: optional list of per-point dicts (then v, alpha, Mach, rho, re, load_factor are per point)."""
    from openaerostruct.integration.aerostruct_groups import AerostructGeometry, AerostructPoint

    fl = dict(AS_FLOW_DEFAULT)
    fl.update(flow or {})
    prob = om.Problem(reports=False)
    ivc = om.IndepVarComp()
    perpoint = ("v", "alpha", "Mach", "re", "rho", "load_factor")
    names = {"Mach": "Mach_number"}
    units = {"v": "m/s", "alpha": "deg", "beta": "deg", "re": "1/m", "rho": "kg/m**3", "CT": "1/s", "R": "m", "W0": "kg",
             "speed_of_sound": "m/s"}
    shared = ["beta", "CT", "R", "W0"]
    if flows is None:
        shared += list(perpoint)
    for k in shared:
        ivc.add_output(names.get(k, k), val=fl[k], units=units.get(k))
    if flows is None:
        ivc.add_output("speed_of_sound", val=fl["v"] / max(fl["Mach"], 1e-3), units="m/s")
    else:
        for i, f in enumerate(flows):
            ff = dict(fl)
            ff.update(f)
            for k in perpoint:
                ivc.add_output("%s_%d" % (names.get(k, k), i), val=ff[k], units=units.get(k))
            ivc.add_output("speed_of_sound_%d" % i, val=ff["v"] / max(ff["Mach"], 1e-3), units="m/s")
    ivc.add_output("empty_cg", val=np.array(fl["empty_cg"], float), units="m")
    fuel = any(s.get("distributed_fuel_weight") for s in surfaces)
    if fuel:
        ivc.add_output("fuel_mass", val=fl["fuel_mass"], units="kg")
    for s in surfaces:
        if "n_point_masses" in s:
            n = s["n_point_masses"]
            ivc.add_output(s["name"] + "_point_masses", val=np.array(fl.get("point_masses", [10.0] * n), float), units="kg")
            ivc.add_output(s["name"] + "_point_mass_locations",
                           val=np.array(fl.get("point_mass_locations", [[1.0, -1.0, 0.0]] * n), float), units="m")
            ivc.add_output(s["name"] + "_engine_thrusts", val=np.array(fl.get("engine_thrusts", [0.0] * n), float), units="N")
    prob.model.add_subsystem("prob_vars", ivc, promotes=["*"])
    for s in surfaces:
        prob.model.add_subsystem(s["name"], AerostructGeometry(surface=s))
    for i in range(npts):
        pn = "AS_point_%d" % i
        prom = ["beta", "CT", "R", "W0", "empty_cg"]
        # rotational=True: AerostructPoint does not promote omega / cg of its coupled aerodynamic states; the caller sets
        # AS_point_i.coupled.aero_states.omega / .cg by absolute name after setup
        if flows is None:
            prom += ["v", "alpha", "Mach_number", "re", "rho", "speed_of_sound", "load_factor"]
        prob.model.add_subsystem(pn, AerostructPoint(surfaces=surfaces, compressible=compressible, rotational=rotational),
                                 promotes_inputs=prom)
        if flows is not None:
            for k in ("v", "alpha", "Mach_number", "re", "rho", "speed_of_sound", "load_factor"):
                prob.model.connect("%s_%d" % (k, i), pn + "." + k)
        # the coupled group's own load_factor (weight relief, fuel, point masses) is connected as the documentation does
        if any(s.get("struct_weight_relief") or s.get("distributed_fuel_weight") or "n_point_masses" in s for s in surfaces):
            prob.model.connect("load_factor" if flows is None else "load_factor_%d" % i, pn + ".coupled.load_factor")
        for s in surfaces:
            name = s["name"]
            com = pn + "." + name + "_perf."
            prob.model.connect(name + ".local_stiff_transformed", pn + ".coupled." + name + ".local_stiff_transformed")
            prob.model.connect(name + ".nodes", pn + ".coupled." + name + ".nodes")
            prob.model.connect(name + ".mesh", pn + ".coupled." + name + ".mesh")
            prob.model.connect(name + ".nodes", com + "nodes")
            prob.model.connect(name + ".cg_location", pn + ".total_perf." + name + "_cg_location")
            prob.model.connect(name + ".structural_mass", pn + ".total_perf." + name + "_structural_mass")
            prob.model.connect(name + ".t_over_c", com + "t_over_c")
            if s.get("struct_weight_relief"):
                prob.model.connect(name + ".element_mass", pn + ".coupled." + name + ".element_mass")
            if s["fem_model_type"] == "tube":
                prob.model.connect(name + ".radius", com + "radius")
                prob.model.connect(name + ".thickness", com + "thickness")
            else:
                for k in ["Qz", "J", "A_enc", "htop", "hbottom", "hfront", "hrear", "spar_thickness"]:
                    prob.model.connect(name + "." + k, com + k)
                if s.get("distributed_fuel_weight"):
                    prob.model.connect(name + ".struct_setup.fuel_vols", pn + ".coupled." + name + ".struct_states.fuel_vols")
                    prob.model.connect("fuel_mass", pn + ".coupled." + name + ".struct_states.fuel_mass")
            if "n_point_masses" in s:
                cp = pn + ".coupled." + name + "."
                prob.model.connect(name + "_point_masses", cp + "point_masses")
                prob.model.connect(name + "_point_mass_locations", cp + "point_mass_locations")
                prob.model.connect(name + "_engine_thrusts", cp + "engine_thrusts")
    if setup:
        if mode == "auto":
            prob.setup(force_alloc_complex=force_alloc_complex)
        else:
            prob.setup(mode=mode, force_alloc_complex=force_alloc_complex)
        quiet_coupled(prob, npts, tighten)
    return prob


def quiet_coupled(prob, npts=1, tighten=1e-12, maxiter=200):
    """solver settings must be changed after setup() (setup re-creates the solvers)"""
    for i in range(npts):
        c = getattr(prob.model, "AS_point_%d" % i).coupled
        c.nonlinear_solver.options["iprint"] = -1
        c.linear_solver.options["iprint"] = -1
        c.nonlinear_solver.options["err_on_non_converge"] = True
        c.nonlinear_solver.options["maxiter"] = maxiter
        if tighten:
            c.nonlinear_solver.options["atol"] = tighten
            c.nonlinear_solver.options["rtol"] = 1e-30


def struct_alone_problem(surface, loads=None, load_factor=1.0, setup=True, extra=None):
    """SpatialBeamAlone fed with nodal loads (ny, 6)"""
    from openaerostruct.structures.struct_groups import SpatialBeamAlone

    ny = surface["mesh"].shape[1]
    prob = om.Problem(reports=False)
    ivc = om.IndepVarComp()
    ivc.add_output("loads", val=np.zeros((ny, 6)) if loads is None else np.array(loads, float), units="N")
    ivc.add_output("load_factor", val=load_factor)
    for k, (v, u) in (extra or {}).items():
        ivc.add_output(k, val=v, units=u)
    prob.model.add_subsystem("indep_vars", ivc, promotes=["*"])
    prob.model.add_subsystem(surface["name"], SpatialBeamAlone(surface=surface), promotes=["*"])
    if setup:
        prob.setup()
    return prob


def aero_geom_problem(surfaces, flow, compressible=False, height=None, setup=True):
    """Geometry group per surface + AeroPoint, wired as in the documentation"""
    from openaerostruct.aerodynamics.aero_groups import AeroPoint
    from openaerostruct.geometry.geometry_group import Geometry

    prob = om.Problem(reports=False)
    ivc = om.IndepVarComp()
    ivc.add_output("v", val=flow.get("v", 100.0), units="m/s")
    ivc.add_output("alpha", val=flow.get("alpha", 5.0), units="deg")
    ivc.add_output("beta", val=flow.get("beta", 0.0), units="deg")
    ivc.add_output("Mach_number", val=flow.get("Mach", 0.3))
    ivc.add_output("re", val=flow.get("re", 1e6), units="1/m")
    ivc.add_output("rho", val=flow.get("rho", 1.0), units="kg/m**3")
    ivc.add_output("cg", val=np.array(flow.get("cg", [0.0, 0.0, 0.0]), float), units="m")
    rotational = "omega" in flow
    prom = ["v", "alpha", "beta", "Mach_number", "re", "rho", "cg"]
    if height is not None:
        ivc.add_output("height_agl", val=height, units="m")
        prom.append("height_agl")
    if rotational:
        ivc.add_output("omega", val=np.array(flow["omega"], float), units="rad/s")
        prom.append("omega")
    prob.model.add_subsystem("prob_vars", ivc, promotes=["*"])
    for s in surfaces:
        prob.model.add_subsystem(s["name"], Geometry(surface=s))
    prob.model.add_subsystem(
        "aero_point_0", AeroPoint(surfaces=surfaces, compressible=compressible, rotational=rotational), promotes_inputs=prom
    )
    for s in surfaces:
        n = s["name"]
        prob.model.connect(n + ".mesh", "aero_point_0." + n + ".def_mesh")
        prob.model.connect(n + ".mesh", "aero_point_0.aero_states." + n + "_def_mesh")
        if "t_over_c_cp" in s:
            prob.model.connect(n + ".t_over_c", "aero_point_0." + n + "_perf.t_over_c")
    if setup:
        prob.setup()
    return prob


def run_coupled(prob):
    """run_model of an aerostructural model: a Gauss-Seidel iteration that diverges fills the AIC matrix with NaN and
    scipy's LU then raises ValueError('array must not contain infs or NaNs') -- that is non-convergence of the coupling
    (C12 quantifies over convergent couplings only), not a crash of the code under test."""
    from .core import Inconclusive

    try:
        prob.run_model()
    except (ValueError, RuntimeError) as e:
        if "infs or NaNs" in str(e) or "singular" in str(e).lower():
            raise Inconclusive("coupled iteration diverged (%s)" % str(e)[:60])
        raise
