SETUP = (
    "/venv/bin/python -c 'import hypothesis' 2>/dev/null || "
    "/venv/bin/pip install --no-index --find-links /opt/veriftools/wheels hypothesis; "
    "mkdir -p /verif/.deps && (PYTHONPATH=/verif/.deps /venv/bin/python -c 'import atheris' 2>/dev/null || "
    "/venv/bin/pip install --no-index --find-links /opt/veriftools/wheels --target /verif/.deps atheris) ; "
    "/venv/bin/python -c 'import hypothesis, numpy, scipy, openmdao; print(hypothesis.__version__)'"
)
ENGINES = [
    {"name": "hypothesis", "path": "/verif/oasv/runner.py", "serves_properties": [],
     "kind_free_text": "Hypothesis 6.168 generators (incl. rule-based state machines) sharded over 16 processes, explicit oracles, "
                       "collect-then-bucket failures, greedy/Hypothesis shrinking to JSON replay files"},
]
NOTES = ("All checks: ./check <id> --tier quick|thorough ; VERIF_SEED selects the Hypothesis seeds; exit 0/1/2 = held / "
         "violation / harness error. Known findings: /verif/known_findings.json. Design: /verif/DESIGN.md.")
_PENDING = "check not built yet in this session (work in progress; will be claimed when its module exists)"
NOT_APPLICABLE = {}
CHECKS = {
    "C05": dict(
        technique="property-based testing (Hypothesis) against an independent reference model (loop-based Biot-Savart VLM) + invariants",
        level="Generated-input exploration: hundreds (quick) to thousands (thorough) of generated multi-surface configurations "
              "compared entry-by-entry with an independently written vortex-lattice solver, plus residual/tangency invariants. "
              "Sampling, not proof; right level because the property quantifies over a continuous input space with an executable oracle.",
        note="Trusts oasv/ref_vlm.py (validated against closed forms and by seeded mutations) and the documented modelling "
             "conventions it shares with OAS (ring layout, 1/4-3/4 chord rule, wake along alpha); tolerance 1e-9 relative.",
    ),
}
for _i in range(1, 21):
    _p = "C%02d" % _i
    if _p not in CHECKS:
        NOT_APPLICABLE[_p] = _PENDING
for e in ENGINES:
    e["serves_properties"] = sorted(CHECKS)
