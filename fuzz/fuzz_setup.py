"""atheris (libFuzzer) target for set-up validation (C20, part a).

bytes --FuzzedDataProvider--> template (oasv/setups.py: mesh | aero | struct | aerostruct | multisec) + ONE mutation operator
--> dictionaries --> generate_mesh / Problem.setup.  Oracle, as in props/c20.py::verdict_fault:

    operator "none"                      the valid template must raise nothing and emit no unknown-key RuntimeWarning
    operator = a fault LISTED by C20     generate_mesh / setup must raise (any exception type)
    operator = unknown key               a RuntimeWarning naming the key, no exception
    operator = UNLISTED malformation     (required key deleted, wrong type, negative / zero / huge / nan number, empty array,
                                         'CRM:<junk>' wing type, wrong-length control points ...)  never a failure: the
                                         outcome (exception type or 'accepted') is only tallied and printed at exit on a
                                         line starting with FUZZ-UNLISTED-SUMMARY

A failure is reported as a libFuzzer crash; the decoded descriptor is printed on a line starting with FUZZ-FAILURE so
that the caller can turn it into a replay for props/c20.py (sub fault_rejected takes {"template", "fault", "params"}).

stand-alone:   PYTHONPATH=/verif/.deps /venv/bin/python /verif/fuzz/fuzz_setup.py -runs=3000 -seed=1 -max_len=64 [corpus_dir]
               (~15 exec/s: every execution sets an OpenMDAO problem up; an empty corpus_dir is seeded deterministically)
decode only:   /venv/bin/python /verif/fuzz/fuzz_setup.py --decode FILE
"""
import atexit
import copy
import json
import os
import shutil
import sys
import tempfile

HERE = os.path.dirname(os.path.abspath(__file__))
sys.path.insert(0, os.path.dirname(HERE))
from oasv import env  # noqa: E402

env.prepare()
import warnings  # noqa: E402

warnings.filterwarnings("ignore")
import atheris  # noqa: E402

_MODS = ["openaerostruct.geometry.utils", "openaerostruct.utils.check_surface_dict", "openaerostruct.geometry.geometry_group",
         "openaerostruct.geometry.geometry_mesh_gen", "openaerostruct.structures.struct_groups",
         "openaerostruct.integration.aerostruct_groups", "openaerostruct.aerodynamics.vortex_mesh",
         "openaerostruct.aerodynamics.aero_groups"]
with atheris.instrument_imports(include=_MODS):
    env.assert_tree()
    import importlib

    for _m in _MODS:
        importlib.import_module(_m)

import numpy as np  # noqa: E402

from oasv import setups as SU  # noqa: E402
from oasv.core import jsonable  # noqa: E402

# OpenMDAO drops *_out directories into cwd: work in a scratch directory (corpus paths are made absolute first)
sys.argv = [os.path.abspath(a) if (i > 0 and not a.startswith("-") and os.path.exists(a)) else a for i, a in enumerate(sys.argv)]
_SCRATCH = tempfile.mkdtemp(prefix="oasv_fuzz_setup_")
os.chdir(_SCRATCH)
atexit.register(lambda: (os.chdir("/"), shutil.rmtree(_SCRATCH, ignore_errors=True)))

KINDS = ["mesh", "aero", "struct", "aerostruct", "multisec"]
LISTED = sorted(f for f in SU.FAULTS if not f.startswith("unknown_key"))
UNLISTED = ["delete_key", "wrong_type", "bad_number", "crm_junk", "cp_length", "empty_mesh", "negative_count"]
BAD_NUMBERS = [0.0, -1.0, 1e300, float("nan"), float("inf"), -0.0, 1e-300]
TALLY = {}


def _f(fdp, lo, hi, specials=()):
    k = fdp.ConsumeIntInRange(0, 3 + len(specials))
    if k < len(specials):
        return float(specials[k])
    return float(fdp.ConsumeFloatInRange(lo, hi))


def decode(data):
    fdp = atheris.FuzzedDataProvider(data)
    kind = KINDS[fdp.ConsumeIntInRange(0, len(KINDS) - 1)]
    t = dict(kind=kind, flow=dict(v=_f(fdp, 30.0, 100.0, (80.0,)), alpha=_f(fdp, 1.0, 6.0, (3.0,)), beta=0.0,
                                  Mach=_f(fdp, 0.1, 0.6, (0.3,)), re=1e6, rho=1.0))
    if kind == "multisec":
        n = fdp.ConsumeIntInRange(2, 3)
        sym = fdp.ConsumeBool()
        toc = fdp.ConsumeBool()
        ny0 = [3, 5][fdp.ConsumeIntInRange(0, 1)]
        t["ms"] = dict(n=n, symmetry=sym, gen=fdp.ConsumeBool(), toc=toc,
                       ny=[ny0 if toc else [3, 5][fdp.ConsumeIntInRange(0, 1)] for _ in range(n)], nx=fdp.ConsumeIntInRange(2, 3),
                       taper=[_f(fdp, 0.5, 1.0, (1.0,)) for _ in range(n)], span=[_f(fdp, 0.8, 3.0, (1.0,)) for _ in range(n)],
                       sweep=[_f(fdp, 0.0, 0.4, (0.0,)) for _ in range(n)], viscous=False, joining=fdp.ConsumeBool())
    else:
        sym = fdp.ConsumeBool()
        wt = ["rect", "rect", "CRM"][fdp.ConsumeIntInRange(0, 2)]
        if kind == "aerostruct":
            wt = "rect"
        nyh = fdp.ConsumeIntInRange(1, 3)
        num_y = 2 * nyh + 1
        if not sym or wt == "CRM" or kind in ("struct", "aerostruct"):
            num_y = max(num_y, 5)
        t["mesh"] = dict(wing_type=wt, num_x=fdp.ConsumeIntInRange(2, 3), num_y=num_y, symmetry=sym, span=_f(fdp, 4.0, 14.0, (10.0,)),
                         root_chord=_f(fdp, 0.6, 2.0, (1.0,)), span_cos_spacing=_f(fdp, 0.0, 1.0, (0.0,)),
                         chord_cos_spacing=_f(fdp, 0.0, 1.0, (0.0,)), offset=[_f(fdp, -2.0, 2.0, (0.0,)), 0.0, 0.0],
                         num_twist_cp=fdp.ConsumeIntInRange(2, 4))
        if kind in ("struct", "aerostruct"):
            t["model"] = ["tube", "wingbox"][fdp.ConsumeIntInRange(0, 1)]
        if kind in ("aero", "aerostruct"):
            t["viscous"] = fdp.ConsumeBool()
            t["tail"] = fdp.ConsumeIntInRange(0, 3) == 0
            t["ground"] = sym and fdp.ConsumeIntInRange(0, 3) == 0
            t["compressible"] = (not t["ground"]) and fdp.ConsumeBool()
    cls = fdp.ConsumeIntInRange(0, 9)
    params = dict(which=fdp.ConsumeIntInRange(0, 40), shorter=fdp.ConsumeBool(), even=2 * fdp.ConsumeIntInRange(1, 6),
                  surface=0, value=3, number=BAD_NUMBERS[fdp.ConsumeIntInRange(0, len(BAD_NUMBERS) - 1)])
    applicable = [f for f in LISTED if kind in SU.FAULTS[f]]
    ukey = "unknown_key_mesh" if kind == "mesh" else "unknown_key_surface"
    if cls == 0:
        op = "none"
    elif cls <= 4 and applicable:
        op = applicable[params["which"] % len(applicable)]
    elif cls <= 6:
        op = ukey
    else:
        op = "unlisted:" + UNLISTED[params["which"] % len(UNLISTED)]
    # make the template compatible with the listed fault (exactly one fault present)
    if op == "ground_no_symmetry":
        t["mesh"]["symmetry"] = False
        t["mesh"]["num_y"] = max(t["mesh"]["num_y"], 5)
        t["ground"] = False
    if op == "one_thickness_cp":
        t["model"] = "wingbox"
    if op in ("ms_len_ny", "ms_len_taper", "ms_len_span", "ms_len_sweep"):
        t["ms"]["gen"] = True
    if op == "ms_len_meshes":
        t["ms"]["gen"] = False
    return dict(template=t, fault=op, params=params)


def _unlisted_mutator(op, params):
    """malformations the property does NOT list: outcome is tallied, never judged"""
    which = params["which"]

    def mutate(stage, obj):
        if stage == "mesh_dict":
            d = obj
            keys = sorted(d)
            if op == "delete_key":
                d.pop(keys[which % len(keys)], None)
            elif op == "wrong_type":
                d[keys[which % len(keys)]] = [None, "7", [1, 2], {"a": 1}][which % 4]
            elif op == "bad_number":
                k = [k for k in keys if isinstance(d[k], float)]
                if k:
                    d[k[which % len(k)]] = params["number"]
            elif op == "crm_junk":
                d["wing_type"] = ["CRM:foo", "CRM:", "xCRMx", "CRM:alpha_9"][which % 4]
                d.pop("span", None)
                d.pop("root_chord", None)
            elif op == "negative_count":
                d[("num_x", "num_y")[which % 2]] = [-3, 0, 1][which % 3]
            return
        if not obj:
            return
        s = obj[0]
        keys = sorted(k for k in s if k not in ("name",))
        if op == "delete_key":
            s.pop(keys[which % len(keys)], None)
        elif op == "wrong_type":
            s[keys[which % len(keys)]] = [None, "7", [1, 2], {"a": 1}][which % 4]
        elif op == "bad_number":
            k = [k for k in keys if isinstance(s[k], float)]
            if k:
                s[k[which % len(k)]] = params["number"]
        elif op == "cp_length":
            k = [k for k in keys if k.endswith("_cp") and isinstance(s[k], np.ndarray)]
            if k:
                kk = k[which % len(k)]
                s[kk] = np.zeros(0) if which % 2 else np.ones(7) * float(np.mean(s[kk]))
        elif op == "empty_mesh":
            if isinstance(s.get("mesh"), np.ndarray):
                s["mesh"] = s["mesh"][:, :1, :] if which % 2 else np.zeros((2, 0, 3))

    return mutate


def _attempt(t, mutate):
    exc = None
    with warnings.catch_warnings(record=True) as w:
        warnings.simplefilter("always")
        try:
            sc = SU.Script(copy.deepcopy(t), mutate=mutate)
            sc.build()
        except Exception as e:  # noqa: BLE001
            exc = e
    return exc, [str(x.message) for x in w if issubclass(x.category, RuntimeWarning)]


def evaluate(desc):
    """-> list of failures [{key, msg}]"""
    t, op, params = desc["template"], desc["fault"], desc["params"]
    fails = []
    if op.startswith("unlisted:"):
        exc, _ = _attempt(t, _unlisted_mutator(op[len("unlisted:"):], params))
        k = "%s/%s -> %s" % (op, t["kind"], type(exc).__name__ if exc is not None else "accepted")
        TALLY[k] = TALLY.get(k, 0) + 1
        return fails
    if op == "none":
        exc, w = _attempt(t, None)
        if exc is not None:
            fails.append({"key": "valid/raised", "msg": "%s: %s" % (type(exc).__name__, str(exc)[:300])})
        elif [x for x in w if "Key `" in x]:
            fails.append({"key": "valid/unknown_key_warning", "msg": str(w[:2])})
        return fails
    exc, w = _attempt(t, SU.apply_fault(op, params))
    if op.startswith("unknown_key"):
        key = SU.unknown_key_name(op, params)
        if exc is not None:
            fails.append({"key": "unknown_key/raised", "msg": "%s: %s" % (type(exc).__name__, str(exc)[:300])})
        elif not [x for x in w if ("`%s`" % key) in x]:
            fails.append({"key": "unknown_key/no_warning", "msg": "key %s; warnings %s" % (key, w[:2])})
        return fails
    if exc is None:
        fails.append({"key": "fault_accepted/" + op, "msg": "listed fault accepted silently by %s" % t["kind"]})
    else:
        k = "%s/%s -> %s" % (op, t["kind"], type(exc).__name__)
        TALLY[k] = TALLY.get(k, 0) + 1
    return fails


class FuzzFailure(Exception):
    pass


_N = [0]


def test_one_input(data):
    desc = decode(data)
    fails = evaluate(desc)
    _N[0] += 1
    if _N[0] % 500 == 0:
        _summary()  # libFuzzer leaves through _exit(): atexit handlers are not reliable, so the tally is printed periodically
    if fails:
        sys.stdout.write("FUZZ-FAILURE " + json.dumps({"desc": jsonable(desc), "fails": jsonable(fails[:3])}) + "\n")
        sys.stdout.flush()
        raise FuzzFailure(fails[0]["key"])


def _summary():
    sys.stdout.write("FUZZ-UNLISTED-SUMMARY " + json.dumps(dict(sorted(TALLY.items()))) + "\n")
    sys.stdout.flush()


def main():
    if len(sys.argv) > 2 and sys.argv[1] == "--decode":
        with open(sys.argv[2], "rb") as f:
            d = decode(f.read())
        print(json.dumps(jsonable(d)))
        print(json.dumps(jsonable(evaluate(d))))
        return
    atexit.register(_summary)
    # deterministic seed corpus (48 random bytes each) so that the search does not start from 1-byte inputs
    for a in sys.argv[1:]:
        if not a.startswith("-") and os.path.isdir(a) and not os.listdir(a):
            rng = np.random.default_rng(20)
            for k in range(24):
                with open(os.path.join(a, "seed%02d" % k), "wb") as f:
                    f.write(bytes(rng.integers(0, 256, 48, dtype=np.uint8).tolist()))
    atheris.Setup(sys.argv, test_one_input)
    atheris.Fuzz()


if __name__ == "__main__":
    main()
