"""atheris (libFuzzer) target for the mesh generators (C14).

bytes --FuzzedDataProvider--> the same JSON-able descriptors the Hypothesis sub-checks of props/c14.py use --> the same
validity predicates (oasv/meshgen_checks.py).  A predicate failure (or an exception inside OpenAeroStruct) is reported
as a libFuzzer crash; the decoded descriptor is printed on a line starting with FUZZ-FAILURE so that the caller can
turn it into a replay file.  Classes of the recorded findings (sections right of the root) are not generated here.

stand-alone:   PYTHONPATH=/verif/.deps /venv/bin/python /verif/fuzz/fuzz_meshgen.py -runs=200000 -seed=1 [corpus_dir]
decode only:   /venv/bin/python /verif/fuzz/fuzz_meshgen.py --decode FILE
"""
import json
import os
import sys

HERE = os.path.dirname(os.path.abspath(__file__))
sys.path.insert(0, os.path.dirname(HERE))
from oasv import env  # noqa: E402

env.prepare()
import warnings  # noqa: E402

warnings.filterwarnings("ignore")
import atheris  # noqa: E402

with atheris.instrument_imports(include=["openaerostruct.geometry.utils", "openaerostruct.geometry.geometry_mesh_gen",
                                         "openaerostruct.geometry.geometry_unification"]):
    env.assert_tree()
    import openaerostruct.geometry.utils  # noqa: F401
    import openaerostruct.geometry.geometry_mesh_gen  # noqa: F401
    import openaerostruct.geometry.geometry_unification  # noqa: F401

import numpy as np  # noqa: E402

from oasv import meshgen_checks as MC  # noqa: E402
from oasv.core import Outcome, jsonable  # noqa: E402
from oasv.meshes import build_mesh  # noqa: E402


def _f(fdp, lo, hi, specials=()):
    """float in [lo, hi]; one byte selects an injected special value or a free value"""
    k = fdp.ConsumeIntInRange(0, 3 + len(specials))
    if k < len(specials):
        return float(specials[k])
    return float(fdp.ConsumeFloatInRange(lo, hi))


def _logf(fdp, lo_exp, hi_exp, specials=()):
    k = fdp.ConsumeIntInRange(0, 3 + len(specials))
    if k < len(specials):
        return float(specials[k])
    return float(10.0 ** fdp.ConsumeFloatInRange(lo_exp, hi_exp))


def decode(data):
    """bytes -> {"mode": ..., **descriptor}"""
    fdp = atheris.FuzzedDataProvider(data)
    mode = fdp.ConsumeIntInRange(0, 2)
    if mode == 0:
        ny = fdp.ConsumeIntInRange(1, 30)
        even = fdp.ConsumeIntInRange(0, 15) == 0
        return dict(
            mode="generate_mesh",
            num_x=fdp.ConsumeIntInRange(2, 12),
            num_y=2 * ny + (0 if even else 1),
            wing_type=MC.WING_TYPES[fdp.ConsumeIntInRange(0, 3)],
            span=_logf(fdp, -2, 3, (10.0,)),
            root_chord=_logf(fdp, -2, 3, (1.0,)),
            span_cos=_f(fdp, 0.0, 1.0, (0.0, 1.0)),
            chord_cos=_f(fdp, 0.0, 1.0, (0.0, 1.0)),
            offset=[_f(fdp, -50.0, 50.0, (0.0,)) for _ in range(3)],
            num_twist_cp=fdp.ConsumeIntInRange(1, 8),
        )
    if mode == 1:
        n = fdp.ConsumeIntInRange(1, 5)
        sym = fdp.ConsumeBool()
        return dict(
            mode="multisection",
            symmetry=sym,
            root_section=n - 1,
            nx=fdp.ConsumeIntInRange(2, 6),
            ny=[fdp.ConsumeIntInRange(2, 8) for _ in range(n)],
            span=[_f(fdp, 0.2, 20.0, (1.0,)) for _ in range(n)],
            taper=[_f(fdp, 0.1, 2.0, (1.0,)) for _ in range(n)],
            sweep=[_f(fdp, -0.8, 0.8, (0.0,)) for _ in range(n)],
            root_chord=_logf(fdp, -2, 3, (1.0,)),
            panel_keys=fdp.ConsumeBool(),
        )
    kind = ["left", "full", "asym"][fdp.ConsumeIntInRange(0, 2)]
    side = lambda: dict(  # noqa: E731
        b=_f(fdp, 2.0, 12.0, (5.0,)), chord=_f(fdp, 0.4, 3.0, (1.0,)), sweep=_f(fdp, -30.0, 40.0, (0.0,)),
        taper=_f(fdp, 0.25, 1.4, (1.0,)), dihedral=_f(fdp, -12.0, 15.0, (0.0,)), twist=_f(fdp, -8.0, 8.0, (0.0,)),
        camber=_f(fdp, 0.0, 0.06, (0.0,)), winglet=0.0, winglet_dih=60.0)
    md = dict(kind=kind, nx=fdp.ConsumeIntInRange(2, 4), nyh=fdp.ConsumeIntInRange(2, 7), span_blend=_f(fdp, 0, 1, (0.0, 1.0)),
              chord_blend=_f(fdp, 0, 1, (0.0, 1.0)), root_twist=0.0, root_x=_f(fdp, -3, 3, (0.0,)), root_y=0.0,
              root_z=_f(fdp, -2, 2, (0.0,)), noise_amp=0.0, noise_seed=0, side=side())
    if kind == "asym":
        md["right"] = side()
        md["right"]["chord"] = md["side"]["chord"]
    ncut = fdp.ConsumeIntInRange(0, 4)
    return dict(mode="unify", mesh=md, cuts=[fdp.ConsumeIntInRange(1, 12) for _ in range(ncut)], shift=fdp.ConsumeBool())


def evaluate(desc):
    out = Outcome()
    if desc["mode"] == "generate_mesh":
        MC.check_generate_mesh(desc, out)
    elif desc["mode"] == "multisection":
        MC.check_multisection(desc, out)
    else:
        m = build_mesh(desc["mesh"])
        MC.check_unify_function(m, desc["cuts"], desc["shift"], out)
        if desc["mesh"]["kind"] == "left":
            MC.check_getfullmesh(m, out)
    return out


class FuzzFailure(Exception):
    pass


def test_one_input(data):
    desc = decode(data)
    try:
        out = evaluate(desc)
        fails = out.fails
    except Exception as exc:  # noqa: BLE001   exception inside OAS on a valid descriptor
        import traceback

        fails = [{"key": "crash:%s" % type(exc).__name__, "msg": traceback.format_exc()[-600:]}]
    if fails:
        sys.stdout.write("FUZZ-FAILURE " + json.dumps({"desc": jsonable(desc), "fails": jsonable(fails[:3])}) + "\n")
        sys.stdout.flush()
        raise FuzzFailure(fails[0]["key"])


def main():
    if len(sys.argv) > 2 and sys.argv[1] == "--decode":
        with open(sys.argv[2], "rb") as f:
            d = decode(f.read())
        print(json.dumps(jsonable(d)))
        print(json.dumps(jsonable(evaluate(d).fails)))
        return
    atheris.Setup(sys.argv, test_one_input)
    atheris.Fuzz()


if __name__ == "__main__":
    main()
