"""C14  Generated meshes are well-formed, ordered and consistent between half and full; multi-section join / unification
(DESIGN.md section 4, C14)."""
import copy
import hashlib
import json
import os
import re
import shutil
import subprocess
import sys
import tempfile

import numpy as np
from hypothesis import strategies as st

from oasv import env
from oasv import meshgen_checks as MC
from oasv import strategies as S
from oasv.core import Inconclusive, Outcome, Sub, jsonable
from oasv.meshes import MESH_DEFAULT, SIDE_DEFAULT, build_mesh

RULE = (
    "generate_mesh: Hypothesis draws num_x 2-12, odd num_y 3-61 (even num_y as a small must-be-rejected class), span and "
    "root chord log-uniform 1e-2..1e3, spanwise/chordwise cosine blends in [0,1] (0 and 1 injected), rect / CRM / CRM:jig "
    "/ CRM:alpha_2.75, offsets +-50, num_twist_cp 1-8; the full and the symmetric mesh of the same parameters are judged "
    "by one validity predicate (oasv/meshgen_checks.py): shape, finite, x strictly increasing chordwise, y spanwise, "
    "streamwise sections, tip-to-tip = span and every chord = root_chord (rect), mirror symmetry about y=0, root column "
    "on y=0, half == first (num_y+1)/2 columns of full (bitwise) and on y<=0, getFullMesh(left=half) == full == "
    "getFullMesh(right=mirror(half)), offset == pure translation, CRM: span/chord keys ignored (+warning), twist length = "
    "num_twist_cp, jig shapes flat.  getFullMesh round trip additionally on arbitrary left halves (sweep, taper, dihedral, "
    "twist, camber, noise).  Multi-section generator: 1-5 sections, nx 2-6, per-section ny 2-8, span 0.2-20, taper "
    "0.1-2, sweep +-0.8, symmetric or asymmetric (root section last in the main search; every other admissible "
    "root_section in probe_multisec_right), ny/nx or bpanels/cpanels keys: section shapes, ordering, flatness, per-"
    "section span and taper realised, straight edges, coincident section edges, root chord at y=0, stitched mesh == "
    "unify_mesh(sections), total span.  Unification: a contiguous mesh is cut at drawn columns into sections sharing "
    "their edge columns; unify_mesh, the GeomMultiUnification component and MultiSecGeometry (given meshes, no scalar "
    "design variables, with the joining component) must return the contiguous mesh node for node, section_separation "
    "= 0 and the per-section t/c distributions concatenated in section order; with and without shift_uni_mesh.  The "
    "same descriptors and predicates are driven a second time by an atheris/libFuzzer campaign (fuzz/fuzz_meshgen.py, "
    "sub atheris_campaign: 8 processes x 12500 runs per case, -seed derived from a Hypothesis-drawn integer, "
    "-entropic=0 for reproducibility, empty seed corpus).  non-trivial = at least 2 spanwise panels per half / 2 "
    "sections; distinct = descriptor digest (6 significant digits)."
)
ASSUMPTIONS = [
    "tolerance 1e-12 relative to the surface extent (bitwise where the statement says 'identical')",
    "domain of the property: num_x >= 2, odd num_y >= 3, span/chord > 0, cosine blends in [0,1] (the undocumented "
    "span_cos_spacing == 2 mode is not generated), taper > 0",
    "multi-section sweep: neither its unit (the generator applies tan() to the raw value) nor its sign is documented; "
    "only straight edges, edge coincidence, spans and tapers are asserted",
    "asymmetric multi-section surfaces with sections right of the root are routed to probe_multisec_right (finding "
    "KF-C14-multisec); multi-section surfaces with differing per-section ny and t_over_c_cp to probe_unif_toc (finding "
    "KF-C14-unif-toc); a single section through GeomMultiUnification / MultiSecGeometry to probe_unify_single (finding "
    "KF-C14-unif-single; unify_mesh and the generator handle one section and stay in the main search)",
    "MultiSecGeometry with 'gen-meshes' feeds span/taper/sweep both to the generator and to every section's Geometry "
    "group (applied twice); the documentation does not say which is meant -> not asserted, unification is tested with "
    "given meshes only",
    "sections of a non-symmetric multi-section surface pass through the full-span transformations: odd ny each; the "
    "MultiSecGeometry route uses flat-chord meshes (KF-C13-rotate would otherwise act on every section)",
    "atheris campaign: reproducible for a given seed only with -entropic=0 (measured); counted as inconclusive when "
    "atheris is not installed under /verif/.deps",
]

RT = MC.RT


# ----------------------------------------------------------------------------------------------------------------
# strategies


@st.composite
def gen_case(draw):
    even = draw(st.sampled_from([False] * 15 + [True]))
    k = draw(st.integers(1, 30))
    return dict(
        num_x=draw(st.integers(2, 12)),
        num_y=2 * k + (0 if even else 1),
        wing_type=draw(st.sampled_from(["rect", "rect", "rect", "CRM", "CRM:jig", "CRM:alpha_2.75", "CRM:alpha_2.50", "CRM:alpha_3.00",
                                        "CRM:alpha_3.25", "CRM:alpha_3.50", "CRM:alpha_3.75", "CRM:alpha_4.00",
                                        "CRM:jig_wind_tunnel", "uCRM_based"])),
        span=draw(S.logfl(-2.0, 3.0, 10.0)),
        root_chord=draw(S.logfl(-2.0, 3.0, 1.0)),
        span_cos=draw(S.fl(0.0, 1.0, 0.0, 1.0)),
        chord_cos=draw(S.fl(0.0, 1.0, 0.0, 1.0)),
        offset=[draw(S.fl(-50.0, 50.0, 0.0)) for _ in range(3)],
        num_twist_cp=draw(st.integers(1, 8)),
    )


def half_case():
    return S.mesh(kinds=("left",), nx=(2, 5), nyh=(2, 8))


@st.composite
def multisec_case(draw, right):
    """right=False: symmetric, or asymmetric with the root section last (no section right of the root)
    right=True : asymmetric with 1..n-1 sections right of the root"""
    n = draw(st.integers(2 if right else 1, 5))
    sym = False if right else draw(st.booleans())
    root = draw(st.integers(0, n - 2)) if right else n - 1
    return dict(
        symmetry=sym,
        root_section=root,
        nx=draw(st.integers(2, 6)),
        ny=[draw(st.integers(2, 8)) for _ in range(n)],
        span=[draw(S.fl(0.2, 20.0, 1.0)) for _ in range(n)],
        taper=[draw(S.fl(0.1, 2.0, 1.0)) for _ in range(n)],
        sweep=[draw(S.fl(-0.8, 0.8, 0.0)) for _ in range(n)],
        root_chord=draw(S.logfl(-2.0, 3.0, 1.0)),
        panel_keys=draw(st.booleans()),
    )


@st.composite
def unify_case(draw, toc_probe=False):
    route = draw(st.sampled_from(["group", "component", "function"] if not toc_probe else ["group", "component"]))
    md = draw(S.mesh(kinds=("left", "full", "asym"), nx=(2, 4), nyh=(4, 7) if toc_probe else (3, 7)))
    if route == "group":
        # every section passes through a Geometry group: keep chords flat (KF-C13-rotate) - see ASSUMPTIONS
        md["root_twist"] = 0.0
        md["noise_amp"] = 0.0
        for s in [md["side"]] + ([md["right"]] if "right" in md else []):
            s["twist"] = 0.0
            s["camber"] = 0.0
    return dict(
        mesh=md,
        route=route,
        cuts=draw(st.lists(st.integers(1, 12), min_size=1, max_size=4)),
        shift=draw(st.booleans()),
        with_toc=True if toc_probe else draw(st.booleans()),
        toc_pick=draw(st.integers(0, 5)),
    )


def atheris_case():
    return st.fixed_dictionaries(dict(base=st.integers(0, 2 ** 24), nproc=st.just(8), runs=st.just(12500)))


# ----------------------------------------------------------------------------------------------------------------
# verdicts


def verdict_generate(desc):
    out = Outcome()
    MC.check_generate_mesh(desc, out)
    if desc["span_cos"] in (0.0, 1.0):
        out.label("span_cos=%g" % desc["span_cos"])
    if desc["chord_cos"] in (0.0, 1.0):
        out.label("chord_cos=%g" % desc["chord_cos"])
    if desc["num_y"] >= 41:
        out.label("num_y>=41")
    out.nontrivial = bool(desc["num_y"] >= 5 and desc["num_y"] % 2 == 1)
    return out


def verdict_getfullmesh(desc):
    out = Outcome()
    half = build_mesh(desc)
    MC.check_getfullmesh(half, out)
    if desc["noise_amp"] > 0:
        out.label("noise")
    if desc["side"]["dihedral"] != 0 or desc["side"]["camber"] != 0 or desc["side"]["twist"] != 0:
        out.label("non_planar")
    out.nontrivial = bool(half.shape[1] >= 3)
    return out


def _ms_labels(out, d):
    n = len(d["ny"])
    out.label("nsec=%d" % n, "symmetric" if d["symmetry"] else "asymmetric", "panel_keys" if d["panel_keys"] else "ny_nx_keys")
    if all(t == 1.0 for t in d["taper"]) and all(s == 0.0 for s in d["sweep"]):
        out.label("taper1_sweep0")
    if any(t != 1.0 for t in d["taper"]):
        out.label("tapered")
    if any(s != 0.0 for s in d["sweep"]):
        out.label("swept")
    if len(set(d["ny"])) > 1:
        out.label("ny_differ")


def verdict_multisec(desc):
    out = Outcome()
    if MC.n_right_sections(desc) != 0:
        raise AssertionError("main multi-section search must not contain sections right of the root")
    MC.check_multisection(desc, out)
    _ms_labels(out, desc)
    out.nontrivial = bool(len(desc["ny"]) >= 2)
    return out


KF_MULTISEC = "KF-C14-multisec"


def verdict_probe_multisec_right(desc):
    """class: asymmetric surface with sections right of the root.  The ordinary validity predicate; every discrepancy
    that involves a right-hand section (and the None crash of the generator with >= 2 of them) is reported under the
    finding's key, everything else under the ordinary keys."""
    out = Outcome()
    nright = MC.n_right_sections(desc)
    if nright < 1:
        raise AssertionError("generator failed to construct the class")
    root = int(desc["root_section"])
    _ms_labels(out, desc)
    out.label("right_sections=%d" % min(nright, 3), "root_section=%d" % root)

    def key_for(sec, key):
        return KF_MULTISEC if (sec is not None and sec > root) else key

    try:
        MC.check_multisection(desc, out, key_for=key_for)
    except TypeError as exc:
        import traceback

        tb = traceback.extract_tb(exc.__traceback__)
        inside = any(fr.name == "generate_section_geometry" for fr in tb)
        if inside and nright >= 2 and "NoneType" in str(exc):
            out.fail(KF_MULTISEC, "generate_section_geometry: result of right-hand section %d never stored (assignment "
                     "outside the loop) -> %s" % (root + 1, exc))
        else:
            raise
    # one finding = one bucket: keep a single KF entry per case
    kf = [f for f in out.fails if f["key"] == KF_MULTISEC]
    out.fails = [f for f in out.fails if f["key"] != KF_MULTISEC] + kf[:1]
    out.nontrivial = True
    return out


def _sections_equal(ny, pick, odd_sections):
    """cut columns giving sections with equal numbers of columns (optionally odd); None if impossible"""
    opts = []
    for nsec in range(2, 7):
        if (ny - 1) % nsec:
            continue
        k = (ny - 1) // nsec
        if odd_sections and k % 2:
            continue
        opts.append([k * i for i in range(1, nsec)])
    if not opts:
        return None
    return opts[pick % len(opts)]


def _sections_unequal(ny, cuts, odd_sections):
    idx = MC.split_columns(ny, cuts)
    if odd_sections:
        idx = sorted(set([0] + [c - c % 2 for c in idx[1:-1] if c - c % 2 > 0] + [ny - 1]))
    sizes = [idx[i + 1] - idx[i] for i in range(len(idx) - 1)]
    if len(set(sizes)) > 1:
        return idx[1:-1]
    # make them differ: cut after the first (two) panel(s)
    c = 2 if odd_sections else 1
    if ny - 1 - c != c and 0 < c < ny - 1:
        return [c]
    return None


def _multisec_given(secs, sym, toc):
    n = len(secs)
    s = {
        "name": "surface", "is_multi_section": True, "num_sections": n, "sec_name": ["sec%d" % i for i in range(n)],
        "symmetry": bool(sym), "S_ref_type": "wetted", "meshes": secs, "CL0": 0.0, "CD0": 0.0, "k_lam": 0.05,
        "c_max_t": 0.3, "with_viscous": False, "with_wave": False, "groundplane": False,
    }
    if toc is not None:
        s["t_over_c_cp"] = [np.array([t]) for t in toc]
    return s


def _run_unification(desc, m, cuts, sym, toc, out):
    """-> (uni_mesh, uni_toc or None, separation or None)"""
    import openmdao.api as om

    secs = MC.split_mesh(m, cuts)
    prob = om.Problem(reports=False)
    if desc["route"] == "component":
        from openaerostruct.geometry.geometry_unification import GeomMultiUnification

        sd = []
        for i, s in enumerate(secs):
            d = {"mesh": s, "name": "sec%d" % i, "symmetry": bool(sym)}
            if toc is not None:
                d["t_over_c_cp"] = np.array([toc[i]])
            sd.append(d)
        prob.model.add_subsystem("u", GeomMultiUnification(sections=sd, surface_name="surface", shift_uni_mesh=bool(desc["shift"])))
        prob.setup()
        for i, s in enumerate(secs):
            prob.set_val("u.sec%d_def_mesh" % i, s)
            if toc is not None:
                prob.set_val("u.sec%d_t_over_c" % i, np.full(s.shape[1] - 1, toc[i]))
        prob.run_model()
        return secs, prob.get_val("u.surface_uni_mesh").copy(), (prob.get_val("u.surface_uni_t_over_c").copy() if toc else None), None
    from openaerostruct.geometry.geometry_group import MultiSecGeometry

    dc = [np.ones(3) for _ in range(len(secs) - 1)]
    prob.model.add_subsystem("g", MultiSecGeometry(surface=_multisec_given(secs, sym, toc), shift_uni_mesh=bool(desc["shift"]),
                                                   joining_comp=len(secs) > 1, dim_constr=dc))
    prob.setup()
    prob.run_model()
    sep = prob.get_val("g.surface_joining.section_separation").copy() if len(secs) > 1 else None
    return secs, prob.get_val("g.surface_unification.surface_uni_mesh").copy(), \
        (prob.get_val("g.surface_unification.surface_uni_t_over_c").copy() if toc else None), sep


def _check_unified(out, m, secs, uni, utoc, sep, toc, pre=""):
    sc = float(max(np.ptp(m[:, :, 0]), np.ptp(m[:, :, 1]), 1e-12))
    if out.true(pre + "unify/shape", uni.shape == m.shape, "%s vs %s" % (uni.shape, m.shape)):
        out.close(pre + "unify/node_for_node", uni, m, rtol=RT, scale=sc)
    if sep is not None:
        out.le(pre + "unify/section_separation", float(np.max(np.abs(sep))), RT * sc)
        out.true(pre + "unify/section_separation_size", sep.size == 6 * (len(secs) - 1), "size %d" % sep.size)
    if toc is not None:
        want = np.concatenate([np.full(s.shape[1] - 1, toc[i]) for i, s in enumerate(secs)])
        out.close(pre + "unify/t_over_c_concatenated", np.ravel(utoc), want, rtol=RT, scale=1.0)


def verdict_unify(desc):
    out = Outcome()
    md = desc["mesh"]
    m = build_mesh(md)
    sym = md["kind"] == "left"
    ny = m.shape[1]
    odd = (not sym) and desc["route"] == "group"
    out.label("route=" + desc["route"], "kind=" + md["kind"], "shift" if desc["shift"] else "no_shift")
    toc = None
    if desc["route"] == "function":
        secs = MC.check_unify_function(m, desc["cuts"], desc["shift"], out)
        out.label("nsec=%d" % len(secs))
        out.nontrivial = bool(len(secs) >= 2)
        return out
    if desc["with_toc"]:
        cuts = _sections_equal(ny, desc["toc_pick"], odd)
        if cuts is None:
            cuts = MC.split_columns(ny, desc["cuts"])[1:-1]
            if odd:
                cuts = sorted(set(c - c % 2 for c in cuts if c - c % 2 > 0))
            out.label("t_over_c_dropped:no_equal_split")
        else:
            out.label("with_t_over_c")
            toc = [0.08 + 0.01 * i for i in range(len(cuts) + 1)]
    else:
        cuts = MC.split_columns(ny, desc["cuts"])[1:-1]
        if odd:
            cuts = sorted(set(c - c % 2 for c in cuts if c - c % 2 > 0))
    if not cuts:
        # a single section through the component / group is finding KF-C14-unif-single (probe_unify_single)
        cuts = [2 if odd else 1]
    secs, uni, utoc, sep = _run_unification(desc, m, cuts, sym, toc, out)
    _check_unified(out, m, secs, uni, utoc, sep, toc)
    out.label("nsec=%d" % len(secs))
    if len(set(s.shape[1] for s in secs)) > 1:
        out.label("ny_differ")
    out.nontrivial = bool(len(secs) >= 2)
    return out


KF_TOC = "KF-C14-unif-toc"


def verdict_probe_unif_toc(desc):
    """class: sections with differing ny and t_over_c_cp.  Ordinary predicate; a set-up shape error between a section's
    t_over_c and the unification component's input is the finding's signature."""
    out = Outcome()
    md = desc["mesh"]
    m = build_mesh(md)
    sym = md["kind"] == "left"
    ny = m.shape[1]
    odd = (not sym) and desc["route"] == "group"
    cuts = _sections_unequal(ny, desc["cuts"], odd)
    if cuts is None:
        # cannot build two sections with different (odd) sizes from this mesh: fall back to the component route
        desc = dict(desc, route="component")
        cuts = _sections_unequal(ny, desc["cuts"], False)
    out.label("route=" + desc["route"], "kind=" + md["kind"])
    toc = [0.08 + 0.01 * i for i in range(len(cuts) + 1)]
    try:
        secs, uni, utoc, sep = _run_unification(desc, m, cuts, sym, toc, out)
    except Exception as exc:  # noqa: BLE001
        msg = str(exc)
        if isinstance(exc, (RuntimeError, ValueError)) and "_t_over_c" in msg and (
                "incompatible" in msg or "shape" in msg or "Expected" in msg):
            out.fail(KF_TOC, "GeomMultiUnification sizes every section's t_over_c input with the last section's ny: %s"
                     % " ".join(msg.split())[:260])
            out.label("nsec=%d" % (len(cuts) + 1))
            return out
        raise
    sizes = [s.shape[1] for s in secs]
    if len(set(sizes)) < 2:
        raise AssertionError("generator failed to construct the class")
    _check_unified(out, m, secs, uni, utoc, sep, toc)
    out.label("nsec=%d" % len(secs))
    return out


KF_SINGLE = "KF-C14-unif-single"


def verdict_probe_unify_single(desc):
    """class: ONE section through GeomMultiUnification / MultiSecGeometry (unify_mesh and the mesh generator support a
    single section explicitly).  Expected: the unified mesh is that section.  Pinned tree: the component drops the last
    column of section 0 and never appends it (compute) and declares duplicate Jacobian entries (setup, shift on)."""
    out = Outcome()
    md = desc["mesh"]
    m = build_mesh(md)
    sym = md["kind"] == "left"
    out.label("route=" + desc["route"], "kind=" + md["kind"], "shift" if desc["shift"] else "no_shift")
    toc = [0.1] if desc["with_toc"] else None
    try:
        secs, uni, utoc, sep = _run_unification(desc, m, [], sym, toc, out)
    except (RuntimeError, ValueError) as exc:
        msg = " ".join(str(exc).split())
        if "GeomMultiUnification" in msg and ("duplicate subjacobian" in msg or "could not broadcast" in msg
                                              or "surface_uni_mesh" in msg):
            out.fail(KF_SINGLE, "single-section surface rejected by the unification component: " + msg[:260])
            return out
        raise
    _check_unified(out, m, secs, uni, utoc, sep, toc)
    return out


# ----------------------------------------------------------------------------------------------------------------
# atheris campaign as a sub-check


def _fuzz_seed(base, k):
    return int(hashlib.sha256(("%d:%d" % (base, k)).encode()).hexdigest()[:7], 16) + 1


def verdict_atheris(desc):
    out = Outcome()
    target = os.path.join(env.VERIF_DIR, "fuzz", "fuzz_meshgen.py")
    if not os.path.isdir(os.path.join(env.VERIF_DIR, ".deps", "atheris")):
        raise Inconclusive("atheris is not installed under /verif/.deps")
    tmp = tempfile.mkdtemp(prefix="c14_atheris_")
    procs = []
    envv = dict(os.environ, PYTHONHASHSEED="0", OMP_NUM_THREADS="1", VERIF_REPO=env.REPO)
    try:
        for k in range(int(desc["nproc"])):
            d = os.path.join(tmp, "p%d" % k)
            os.makedirs(os.path.join(d, "corpus"))
            log = open(os.path.join(d, "log.txt"), "w")
            cmd = [sys.executable, target, "-runs=%d" % int(desc["runs"]), "-seed=%d" % _fuzz_seed(desc["base"], k),
                   "-entropic=0", "-len_control=0", "-max_len=192", "-timeout=60", "-artifact_prefix=" + d + os.sep,
                   os.path.join(d, "corpus")]
            procs.append((k, d, log, subprocess.Popen(cmd, cwd=d, env=envv, stdout=log, stderr=subprocess.STDOUT)))
        execs = 0
        feats = 0
        corpus = 0
        for k, d, log, pr in procs:
            rc = pr.wait()
            log.close()
            with open(os.path.join(d, "log.txt"), errors="replace") as f:
                text = f.read()
            mdone = re.search(r"Done (\d+) runs", text)
            mft = re.findall(r"cov: (\d+) ft: (\d+) corp: (\d+)", text)
            if mft:
                feats = max(feats, int(mft[-1][1]))
                corpus += int(mft[-1][2])
            ff = [ln for ln in text.splitlines() if ln.startswith("FUZZ-FAILURE ")]
            if ff:
                rec = json.loads(ff[-1][len("FUZZ-FAILURE "):])
                sub = {"generate_mesh": "generate_mesh", "multisection": "multisection"}.get(rec["desc"]["mode"])
                path = ""
                if sub:
                    rd = {k2: v for k2, v in rec["desc"].items() if k2 != "mode"}
                    os.makedirs(os.path.join(env.VERIF_DIR, "replays", "found"), exist_ok=True)
                    h = hashlib.sha256(json.dumps(rd, sort_keys=True).encode()).hexdigest()[:10]
                    path = os.path.join(env.VERIF_DIR, "replays", "found", "C14_atheris_%s.json" % h)
                    with open(path, "w") as f:
                        json.dump({"property": "C14", "sub": sub, "desc": rd, "from": "atheris"}, f, indent=1)
                out.fail("atheris/" + rec["fails"][0]["key"], "seed %d: %s replay=%s desc=%s"
                         % (_fuzz_seed(desc["base"], k), rec["fails"][0].get("msg", "")[:120], path, json.dumps(rec["desc"])[:200]))
            elif mdone and rc == 0:
                execs += int(mdone.group(1))
            elif "ModuleNotFoundError" in text or "ImportError" in text:
                raise Inconclusive("atheris target could not be imported: " + text[-300:])
            else:
                raise env.HarnessError("atheris process %d ended with rc=%s without a verdict:\n%s" % (k, rc, text[-1500:]))
        out.info.update(execs=execs, features=feats, corpus=corpus)
        out.label("atheris:execs=%d" % execs, "atheris:features>=%d" % (feats // 50 * 50))
        out.nontrivial = bool(execs > 0)
    finally:
        shutil.rmtree(tmp, ignore_errors=True)
    return out


_MD = copy.deepcopy(MESH_DEFAULT)
_MD["side"] = dict(SIDE_DEFAULT)
DEF_GEN = dict(num_x=2, num_y=3, wing_type="rect", span=10.0, root_chord=1.0, span_cos=0.0, chord_cos=0.0, num_twist_cp=2)
DEF_UNIFY = dict(mesh=_MD, shift=False, with_toc=False)

SUBS = [
    Sub("generate_mesh", gen_case(), verdict_generate, quick=3200, thorough=100000, defaults=DEF_GEN),
    Sub("getfullmesh", half_case(), verdict_getfullmesh, quick=1600, thorough=40000, defaults=_MD),
    Sub("multisection", multisec_case(False), verdict_multisec, quick=3200, thorough=100000,
        defaults=dict(nx=2, root_chord=1.0, panel_keys=False)),
    Sub("unify_sections", unify_case(), verdict_unify, quick=1600, thorough=40000, defaults=DEF_UNIFY),
    Sub("probe_multisec_right", multisec_case(True), verdict_probe_multisec_right, quick=320, thorough=6000,
        defaults=dict(nx=2, root_chord=1.0, panel_keys=False)),
    Sub("probe_unif_toc", unify_case(toc_probe=True), verdict_probe_unif_toc, quick=160, thorough=3000, defaults=DEF_UNIFY),
    Sub("probe_unify_single", unify_case(toc_probe=True), verdict_probe_unify_single, quick=64, thorough=1000, defaults=DEF_UNIFY),
    Sub("atheris_campaign", atheris_case(), verdict_atheris, quick=2, thorough=50, max_shards=1),
]
