SETUP = (
    "/venv/bin/python -c 'import hypothesis' 2>/dev/null || "
    "/venv/bin/pip install --no-index --find-links /opt/veriftools/wheels hypothesis; "
    "mkdir -p /verif/.deps && (PYTHONPATH=/verif/.deps /venv/bin/python -c 'import atheris' 2>/dev/null || "
    "/venv/bin/pip install --no-index --find-links /opt/veriftools/wheels --target /verif/.deps atheris) ; "
    "/venv/bin/python -c 'import hypothesis, numpy, scipy, openmdao; print(hypothesis.__version__)'"
)
ENGINES = [
    {"name": "hypothesis", "path": "/verif/oasv/runner.py", "serves_properties": [],
     "kind_free_text": "Hypothesis 6.168 generators (incl. rule-based state machines) sharded over 16 processes, explicit oracles, "
                       "collect-then-bucket failures, greedy/Hypothesis shrinking to JSON replay files"},
    {"name": "atheris", "path": "/verif/fuzz/fuzz_meshgen.py", "serves_properties": ["C14", "C20"],
     "kind_free_text": "coverage-guided byte-level fuzzing (atheris/libFuzzer) of the mesh generators (wired into C14 as a "
                       "sub-check with -seed/-runs bounds) and of set-up validation (fuzz/fuzz_setup.py, stand-alone)"},
]
NOTES = ("All checks: ./check <id> --tier quick|thorough ; VERIF_SEED selects the Hypothesis seeds; exit 0/1/2 = held / "
         "violation / harness error. Known findings: /verif/known_findings.json. Design: /verif/DESIGN.md.")
NOT_APPLICABLE = {}

_LVL = ("Generated-input exploration with an explicit oracle; sampling, not proof. Right level because the property quantifies "
        "over a continuous input / configuration / history space for which an executable oracle exists; ")
CHECKS = {
    "C01": dict(technique="property-based testing (Hypothesis): in-situ re-instantiation of every component + real-valued 5-point numerical differentiation with Richardson error control; residual/linear-solve identities for implicit components",
                level=_LVL + "every component instance of hundreds of generated public-group models is judged per input direction.",
                note="Trusts real-valued finite differences with an error estimate (inconclusive when the estimate is poor), rtol 1e-6; admissible perturbations only; documented non-smooth points avoided by construction."),
    "C02": dict(technique="property-based testing (Hypothesis): differential fwd vs rev vs numerical differentiation of the converged analysis vs alternative linear solvers, fwd/rev block-Gauss-Seidel agreement",
                level=_LVL + "totals of generated aero / structural / aerostructural / multipoint models in both modes and three linear solvers.",
                note="Numerical differentiation of run_model with the coupled solver tightened to 1e-12; non-converging alternative solvers are inconclusive; block-scaled tolerances 1e-5 (tube/aero) / 5e-4 (fd-declared wingbox chain)."),
    "C03": dict(technique="stateful property-based testing (Hypothesis rule-based state machine) against a model = freshly built problem",
                level=_LVL + "operation histories (goto/run/linearise/totals/check_partials) over one live Problem compared with fresh problems after every step, down to component sub-Jacobians.",
                note="Upstream: OpenMDAO's check_partials overwrites declared-constant sub-Jacobians; after a check_partials only non-constant partials and outputs are judged. Tolerance 1e-9 (2e-8 aerostructural)."),
    "C04": dict(technique="property-based testing (Hypothesis): differential half-span vs mirrored full-span model",
                level=_LVL + "aero and aerostructural pairs incl. ground effect via explicit images; two recorded findings run as probes.",
                note="Constant B-spline distributions; KS failure not compared (ln2/rho by definition); the by-construction difference of the documented all-node point-mass weighting is predicted (response to the leaked nodal loads) and added to the tolerance; symmetry flags as Python or numpy booleans; 1e-9 / 1e-7."),
    "C05": dict(technique="property-based testing (Hypothesis) against an independent reference model (loop-based Biot-Savart VLM) + invariants",
                level=_LVL + "multi-surface configurations compared entry-by-entry with an independently written vortex-lattice solver plus residual/tangency invariants.",
                note="Trusts oasv/ref_vlm.py (extended-precision textbook kernels) and the documented modelling conventions it shares with OAS; tolerance 1e-9 relative."),
    "C06": dict(technique="property-based testing (Hypothesis): metamorphic relations (dynamic pressure, length scale, translation) + definitional identities",
                level=_LVL + "three metamorphic transformations per generated configuration incl. extreme length factors 1e-7..1e7.",
                note="Similarity scaling of rotation rates accompanies speed/length scaling; ground effect only incompressible; 1e-9."),
    "C07": dict(technique="property-based testing (Hypothesis): metamorphic mirror-image relation",
                level=_LVL + "asymmetric full-span aero models vs their mirror image, symmetric full-span aerostructural models, left/right half models through the Geometry group.",
                note="Three recorded findings (wingbox stresses, right-half sweep/dihedral/taper, right-half Rotate) run as probes with exact-signature keys; 1e-9 / 1e-7."),
    "C08": dict(technique="property-based testing (Hypothesis): reference model with explicit images + differential (explicit image surfaces in free air) + limit",
                level=_LVL + "ground-effect configurations vs method-of-images in two independent realisations, far-field bound and limit of the difference from free air over a ladder of heights, rejection without symmetry (alone and next to a valid ground-effect surface).",
                note="Zero sideslip; tolerance for image circulations widened by the round-off of an image lattice at 2h; 1e-9."),
    "C09": dict(technique="property-based testing (Hypothesis): differential against the incompressible solver on the Prandtl-Glauert-transformed geometry + limit/continuity",
                level=_LVL + "PG identity, Mach-0 identity and Lipschitz continuity in Mach per configuration.",
                note="Rotation rates excluded from the transformation identity (statement silent) but included in the Mach-0 identity; incompressible solver tied to the reference by C05; 1e-9."),
    "C10": dict(technique="property-based testing (Hypothesis) against an independent reference model (3-D Euler-Bernoulli frame, stiffness and force method), closed forms, algebraic laws",
                level=_LVL + "generated beams/loads vs two independent frame solutions, textbook cantilevers, linearity, Maxwell-Betti, rotation invariance.",
                note="Section properties from wind-tunnel-model to transport scale; forward tolerance max(1e-7, 100 eps cond); equilibrium backward error max(1e-7, 10 eps cond); local-triad convention is an input of the reference; right-half clamp is a recorded finding (probe)."),
    "C11": dict(technique="property-based testing (Hypothesis): conservation invariants and exact rigid-motion relations",
                level=_LVL + "sum of forces / moments about drawn points for load transfer and mesh-point forces, bitwise/exact/first-order displacement transfer.",
                note="Inputs declared in SI or other user units; force 1e-12, moment 1e-10 relative; rotation bound derived from the formula."),
    "C12": dict(technique="stateful property-based testing (Hypothesis rule-based state machine): out-of-solver consistency oracle + model = default-solver fresh problem",
                level=_LVL + "histories of solver changes, state perturbations, point changes over a live multipoint aerostructural problem (spar location over [0,1], rotational points); first-principles static equivalence of the converged loads; stiff-limit sub-check.",
                note="Non-default solvers that do not converge are inconclusive; lifting flight points only; 5e-9."),
    "C13": dict(technique="property-based testing (Hypothesis) against independent re-statements of the documented transformations + invariants",
                level=_LVL + "nine transformation components alone, the Geometry group (with and without the <name>_dv switches) and GeometryMesh alone on generated meshes, B-spline constancy.",
                note="Twist-axis convention taken from the code; Rotate no-op defect is a recorded finding (probe); 1e-10."),
    "C14": dict(technique="property-based testing (Hypothesis) with validity predicates + coverage-guided fuzzing (atheris) of the same predicates",
                level=_LVL + "mesh generators (all tabulated CRM variants restated from the table; repeatable, dictionary untouched), getFullMesh round trips, multi-section stitching/unification; atheris campaign with fixed -seed/-runs.",
                note="Multi-section sweep unit/sign and gen-meshes double application are not asserted (murky semantics); single-section unification is a recorded finding."),
    "C15": dict(technique="property-based testing (Hypothesis): closed-form oracles, algebraic laws (homogeneity, rigid-body nullspace), KS bounds",
                level=_LVL + "generated beams/displacement fields/section data incl. stress magnitudes to 1e12 Pa and up to 2000 elements.",
                note="Wingbox recovery section accepted at either element end (C07 finding); fore-aft sign is a recorded finding (probe); 1e-10."),
    "C16": dict(technique="property-based testing (Hypothesis): first-principles conservation oracles (total force and moment, mass, cg, fuel volume)",
                level=_LVL + "component-level and SpatialBeamAlone-level resultants for every load source.",
                note="Only totals asserted (per-node couple signs are not part of the statement); 1e-10."),
    "C17": dict(technique="property-based testing (Hypothesis): definitional identities + independent analytic US-1976 atmosphere model + continuity",
                level=_LVL + "functionals and groups vs re-statements; atmosphere vs analytic model within table rounding.",
                note="Atmosphere tolerances 1e-5..5e-4 (2e-3 at lapse-rate kinks / above 95 kft: Akima smoothing of the table)."),
    "C18": dict(technique="property-based testing (Hypothesis): metamorphic / monotonicity relations, onset location, discretisation independence",
                level=_LVL + "viscous and wave drag components and switches through AeroPoint, group-level Korn relation for the reported lift coefficient (CL0 != 0).",
                note="Raymer correlations are not re-derived; like-with-like symmetry flag (C04 wave finding untouched)."),
    "C19": dict(technique="property-based testing (Hypothesis): metamorphic (permutation, splitting, far surface) + differential MPhys chain vs native + permutation/adjoint/accumulation identities + model-based check of the MPhys builder",
                level=_LVL + "surface lists, splits, sections, far surfaces, hand-composed MPhys chain incl. the mesh multiplexer (user meshes of other dtypes), sequences of builders in one process.",
                note="MPhys AeroCouplingGroup cannot be set up without MPI; the chain Demux->AeroSolverGroup->Mux->AeroFuncsGroup is composed by hand."),
    "C20": dict(technique="property-based testing (Hypothesis) with fault injection, both directions + stateful interleaving machine; atheris target stand-alone",
                level=_LVL + "listed faults must raise, valid twins must not (near-miss unknown keys included); finiteness/repeatability/non-mutation of the whole user dictionary (entries changed, keys added); interleaved independent problems.",
                note="Only the listed fault classes are asserted; unlisted malformations are tallied."),
}
import os as _os
for _k in list(CHECKS):
    if not _os.path.exists(_os.path.join(_os.path.dirname(_os.path.dirname(_os.path.abspath(__file__))), "props", _k.lower() + ".py")):
        del CHECKS[_k]
for e in ENGINES:
    if not e["serves_properties"]:
        e["serves_properties"] = sorted(CHECKS)
_PENDING = "check not built yet in this session"
for _i in range(1, 21):
    _p = "C%02d" % _i
    if _p not in CHECKS:
        NOT_APPLICABLE[_p] = _PENDING
