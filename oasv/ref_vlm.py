"""Independent vortex-lattice reference, written from the textbook (Katz & Plotkin) -- shares no code and no formula
layout with OpenAeroStruct.

* vortex rings A(i,j+1) -> B(i,j) -> C(i+1,j) -> D(i+1,j+1) on the vortex mesh (bound segments at the panel 1/4 chord,
  last row at the trailing edge); the last-row ring is closed at infinity by two semi-infinite legs along
  u = (cos a, 0, sin a);
* segment kernel  G/4pi * (r1 x r2)/|r1 x r2|^2 * r0.(r1/|r1| - r2/|r2|)  with a *relative* collinearity guard;
* semi-infinite kernel G/4pi * (u x r)/|u x r|^2 * (1 + u.r/|r|);
* collocation at panel 3/4 chord mid-span, normals from the panel diagonals;
* symmetric surfaces: a genuinely separate mirrored lattice that shares the unknowns;
* extra image systems (ground effect): list of (mesh, sign) per surface sharing the unknowns;
* onset velocity  V_inf(alpha, beta) + Omega x (r_coll - cg);
* forces by Kutta-Joukowski  F = rho * G_h * (V_loc x l), G_h = ring difference, V_loc = onset + induction at the
  bound-segment mid-point, l = bound vector.
Loops run over source panels; evaluation points are handled as arrays."""
import numpy as np

FOURPI = 4.0 * np.pi
LD = np.longdouble  # extended precision for the kernels: the textbook form cancels for nearly collinear points


def _cross(a, b):
    out = np.empty(np.broadcast(a, b).shape, dtype=LD)
    out[..., 0] = a[..., 1] * b[..., 2] - a[..., 2] * b[..., 1]
    out[..., 1] = a[..., 2] * b[..., 0] - a[..., 0] * b[..., 2]
    out[..., 2] = a[..., 0] * b[..., 1] - a[..., 1] * b[..., 0]
    return out


def seg(P1, P2, X):
    """velocity at points X (n,3) induced by a unit-strength straight segment P1 -> P2"""
    X = np.asarray(X, LD)
    P1 = np.asarray(P1, LD)
    P2 = np.asarray(P2, LD)
    r1 = X - P1
    r2 = X - P2
    r0 = P2 - P1
    c = _cross(r1, r2)
    c2 = np.einsum("ij,ij->i", c, c)
    n1 = np.sqrt(np.einsum("ij,ij->i", r1, r1))
    n2 = np.sqrt(np.einsum("ij,ij->i", r2, r2))
    # a point is ON the segment's line when its distance |r1 x r2|/|r0| is below the round-off of the (double precision)
    # coordinates it was built from; relative to the coordinate magnitude, not to the segment length (a cosine-clustered
    # tip segment is 1e-4 of the span long)
    coord = max(float(np.max(np.abs(P1))), float(np.max(np.abs(P2))), float(np.max(np.abs(X))) if X.size else 0.0, 1e-300)
    l0 = float(np.sqrt(np.sum(r0 * r0)))
    bad = (c2 <= (1e-12 * coord * l0) ** 2) | (c2 <= 1e-24 * (n1 * n2) ** 2) | (n1 == 0) | (n2 == 0)
    n1s = np.where(bad, 1.0, n1)
    n2s = np.where(bad, 1.0, n2)
    c2s = np.where(bad, 1.0, c2)
    fac = (r1 / n1s[:, None] - r2 / n2s[:, None]) @ r0
    out = c * (fac / c2s)[:, None] / FOURPI
    out[bad] = 0.0
    return out


def semi(P, u, X):
    """velocity at X induced by a unit-strength vortex running from P to infinity along unit vector u"""
    X = np.asarray(X, LD)
    P = np.asarray(P, LD)
    u = np.asarray(u, LD)
    r = X - P
    c = _cross(np.broadcast_to(u, r.shape), r)
    c2 = np.einsum("ij,ij->i", c, c)
    n = np.sqrt(np.einsum("ij,ij->i", r, r))
    coord = max(float(np.max(np.abs(P))), float(np.max(np.abs(X))) if X.size else 0.0, 1e-300)
    bad = (c2 <= (1e-12 * coord) ** 2) | (c2 <= 1e-24 * n * n)
    ns = np.where(bad, 1.0, n)
    c2s = np.where(bad, 1.0, c2)
    out = c * ((1.0 + (r @ u) / ns) / c2s)[:, None] / FOURPI
    out[bad] = 0.0
    return out


def ring(V, i, j, last, u, X):
    A = V[i, j + 1]
    B = V[i, j]
    C = V[i + 1, j]
    D = V[i + 1, j + 1]
    v = seg(A, B, X) + seg(B, C, X) + seg(D, A, X)
    if last:
        v = v + semi(C, u, X) - semi(D, u, X)
    else:
        v = v + seg(C, D, X)
    return v


def vortex_lattice(mesh):
    V = mesh.copy()
    V[:-1] = 0.75 * mesh[:-1] + 0.25 * mesh[1:]
    return V


def mirror_y(mesh):
    m = mesh[:, ::-1, :].copy()
    m[:, :, 1] *= -1.0
    return m


class Lattice:
    def __init__(self, meshes, symmetries, alpha_deg, images=None):
        a = np.radians(alpha_deg)
        self.u = np.array([np.cos(a), 0.0, np.sin(a)])
        self.meshes = [np.asarray(m, float) for m in meshes]
        self.panels = []
        for s, m in enumerate(self.meshes):
            nx, ny, _ = m.shape
            for i in range(nx - 1):
                for j in range(ny - 1):
                    self.panels.append((s, i, j))
        self.N = len(self.panels)
        self.Vm = [vortex_lattice(m) for m in self.meshes]
        # per surface: list of (vortex lattice, sign, 'same'|'flip')
        self.imgs = [[] for _ in self.meshes]
        for s, m in enumerate(self.meshes):
            if symmetries[s]:
                self.imgs[s].append((vortex_lattice(mirror_y(m)), 1.0, "flip"))
            if images is not None and images[s]:
                for im, sign in images[s]:
                    im = np.asarray(im, float)
                    self.imgs[s].append((vortex_lattice(im), sign, "same"))
                    if symmetries[s]:
                        self.imgs[s].append((vortex_lattice(mirror_y(im)), sign, "flip"))
        N = self.N
        self.coll = np.zeros((N, 3))
        self.fpt = np.zeros((N, 3))
        self.nrm = np.zeros((N, 3))
        self.bv = np.zeros((N, 3))
        for k, (s, i, j) in enumerate(self.panels):
            m = self.meshes[s]
            self.coll[k] = 0.5 * (0.25 * m[i, j] + 0.75 * m[i + 1, j] + 0.25 * m[i, j + 1] + 0.75 * m[i + 1, j + 1])
            self.fpt[k] = 0.5 * (0.75 * m[i, j] + 0.25 * m[i + 1, j] + 0.75 * m[i, j + 1] + 0.25 * m[i + 1, j + 1])
            n = np.cross(m[i, j + 1] - m[i + 1, j], m[i, j] - m[i + 1, j + 1])
            self.nrm[k] = n / np.linalg.norm(n)
            self.bv[k] = self.Vm[s][i, j] - self.Vm[s][i, j + 1]

    def influence(self, X):
        """(npts, N, 3): velocity at X[p] per unit circulation of panel k (with all its images)"""
        X = np.atleast_2d(np.asarray(X, float))
        out = np.zeros((X.shape[0], self.N, 3), dtype=LD)
        for k, (s, i, j) in enumerate(self.panels):
            nx, ny, _ = self.meshes[s].shape
            last = i == nx - 2
            v = ring(self.Vm[s], i, j, last, self.u, X)
            for VI, sign, mode in self.imgs[s]:
                jj = (ny - 2 - j) if mode == "flip" else j
                v = v + sign * ring(VI, i, jj, last, self.u, X)
            out[:, k, :] = v
        return out.astype(float)


def solve(meshes, symmetries, alpha_deg, beta_deg, v, rho, omega=None, cg=None, images=None):
    L = Lattice(meshes, symmetries, alpha_deg, images)
    a = np.radians(alpha_deg)
    b = np.radians(beta_deg)
    Vinf = v * np.array([np.cos(a) * np.cos(b), -np.sin(b), np.sin(a) * np.cos(b)])
    N = L.N
    onset = np.tile(Vinf, (N, 1))
    if omega is not None:
        onset = onset + np.cross(np.asarray(omega, float), L.coll - np.asarray(cg, float))
    Mc = L.influence(L.coll)  # (N pts, N panels, 3)
    AIC = np.einsum("pkc,pc->pk", Mc, L.nrm)
    rhs = -np.einsum("ij,ij->i", onset, L.nrm)
    G = np.linalg.solve(AIC, rhs)
    Gh = G.copy()
    index = {p: k for k, p in enumerate(L.panels)}
    for k, (s, i, j) in enumerate(L.panels):
        if i > 0:
            Gh[k] = G[k] - G[index[(s, i - 1, j)]]
    Mf = L.influence(L.fpt)
    Vloc = onset + np.einsum("pkc,k->pc", Mf, G)
    F = rho * Gh[:, None] * np.cross(Vloc, L.bv)
    out = []
    k = 0
    for m in L.meshes:
        nx, ny, _ = m.shape
        n = (nx - 1) * (ny - 1)
        out.append(F[k : k + n].reshape(nx - 1, ny - 1, 3))
        k += n
    return dict(G=G, Gh=Gh, F=out, AIC=AIC, rhs=rhs, coll=L.coll, nrm=L.nrm, Vloc=Vloc, onset=onset, lattice=L, bv=L.bv)


def normal_velocity(lattice, G, onset):
    """normal velocity at every collocation point for given circulations (independent tangency check)"""
    Mc = lattice.influence(lattice.coll)
    V = onset + np.einsum("pkc,k->pc", Mc, G)
    return np.einsum("ij,ij->i", V, lattice.nrm)
