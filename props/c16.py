"""C16  Mass, centre of gravity and inertial, fuel and thrust loads are conserved (DESIGN.md section 4, C16)."""
import numpy as np
from hypothesis import strategies as st

from oasv import beams as B
from oasv import strategies as S
from oasv.core import Outcome, Sub

RULE = (
    "Beam polylines as in C10 (half model = symmetric surface, full span; 'wing' and 'general' layouts; 1-8 elements per "
    "side), element areas A and internal areas A_int (3 decades + per-element spread), material density, wing_weight_ratio, "
    "load factor in [-3, 5] incl. exactly 0 and negative, fuel mass, reserve fuel, fuel density, fuel burn, and 0-4 point "
    "masses / engine thrusts placed anywhere within +-30 m (classes: exactly at a node, same span station as a node, far "
    "outside the span), plus a drawn reference point for moments.  Layer (a): the components Weight, StructuralCG, "
    "StructureWeightLoads, FuelLoads, WingboxFuelVol, WingboxFuelVolDelta, ComputePointMassLoads, ComputeThrustLoads, "
    "TotalLoads fed directly; layer (b): SpatialBeamAlone (tube / wingbox) with struct_weight_relief, "
    "distributed_fuel_weight and n_point_masses switched on and wired as the aerostructural group wires them.  Oracles "
    "(first principles, oasv/ref_struct.py): element and total mass, mass-weighted centroid (y = 0 for symmetric), and for "
    "every load source the total force and the total moment about the drawn point compared with the resultant of the "
    "element weights at the element mid-points / of the point forces at their locations; total_loads = sum of sources; "
    "fuel_vols = L A_int; fuel_vol_delta = sum V - (fuelburn + reserve)/rho_f (halved for symmetric).  Only totals are "
    "asserted.  non-trivial = non-zero mass and at least one non-zero load source; distinct = descriptor digest."
)
ASSUMPTIONS = [
    "tolerance 1e-10 relative: forces to the total weight / thrust of the source, moments to sum|F_i| * (largest distance of "
    "a node, mid-point or load location from the reference point)",
    "g = 9.80665 m/s^2",
    "symmetric surfaces: structural_mass counts both halves, distributed loads are the half-span share (fuel incl. reserve "
    "halved), point masses / thrusts are applied in full (the statement halves only the distributed fuel share)",
    "surface['symmetry'] is a Python bool or a numpy boolean",
    "per-node consistent-load couples are not asserted (DESIGN.md C16), only their cancellation in the total moment",
]

TOL = 1e-10


def masses(max_n=4):
    one = st.fixed_dictionaries(
        dict(
            place=st.sampled_from(["free", "free", "at_node", "same_span_station", "far"]),
            node=S.fl(0.0, 1.0, 0.0),
            loc=st.lists(S.fl(-10.0, 10.0, 0.0), min_size=3, max_size=3),
            mass=st.one_of(st.just(0.0), S.logfl(0.0, 4.0, 1000.0)),
            thrust=st.one_of(st.just(0.0), S.logfl(1.0, 5.5, 1.0e4)),
        )
    )
    return st.lists(one, min_size=0, max_size=max_n)


def config(nel=(1, 8)):
    return st.fixed_dictionaries(
        dict(
            beam=B.beam(nel=nel),
            eA=S.fl(-4.0, -1.0, -2.5),
            eAint=S.fl(-3.0, 0.0, -1.0),
            spread=S.fl(0.0, 1.0, 0.0),
            sec_seed=st.integers(0, 10 ** 6),
            mrho=S.logfl(2.0, 4.3, 3000.0),
            wwr=S.fl(0.5, 3.0, 1.0, 2.0),
            load_factor=S.fl(-3.0, 5.0, 1.0, 0.0, -1.0, 2.5),
            fuel_mass=st.one_of(st.just(0.0), S.logfl(0.0, 5.0, 1.0e4)),
            Wf_reserve=st.one_of(st.just(0.0), S.logfl(0.0, 4.5, 1.5e4)),
            fuel_density=S.fl(600.0, 900.0, 803.0),
            fuelburn=st.one_of(st.just(0.0), S.logfl(0.0, 5.5, 5.0e4)),
            masses=masses(),
            ref_point=st.lists(S.fl(-20.0, 20.0, 0.0), min_size=3, max_size=3),
            loads=B.loads(),
            # the symmetry flag as a numpy boolean (what a comparison on the mesh gives) instead of a Python bool
            numpy_flag=st.sampled_from([False, False, True]),
        )
    )


def _expand(desc):
    bd = desc["beam"]
    nodes = B.polyline(bd)
    ny = nodes.shape[0]
    rng = np.random.default_rng(int(desc["sec_seed"]))
    A = 10.0 ** desc["eA"] * 10.0 ** (desc["spread"] * rng.uniform(-1, 1, ny - 1))
    Aint = 10.0 ** desc["eAint"] * 10.0 ** (desc["spread"] * rng.uniform(-1, 1, ny - 1))
    locs, pm, th = [], [], []
    for m in desc["masses"]:
        k = int(round(m["node"] * (ny - 1)))
        if m["place"] == "at_node":
            loc = nodes[k].copy()
        elif m["place"] == "same_span_station":
            loc = np.array(m["loc"], float)
            loc[1] = nodes[k, 1]
        elif m["place"] == "far":
            loc = np.array(m["loc"], float) * 3.0
        else:
            loc = np.array(m["loc"], float)
        locs.append(loc)
        pm.append(m["mass"])
        th.append(m["thrust"])
    return nodes, ny, A, Aint, np.array(locs, float).reshape(-1, 3), np.array(pm, float), np.array(th, float)


def _surface(desc, ny, sym, **kw):
    s = B.beam_surface(ny, sym, 7.0e10, 3.0e10, "wingbox")
    s.update(
        {
            "mrho": desc["mrho"],
            "wing_weight_ratio": desc["wwr"],
            "Wf_reserve": desc["Wf_reserve"],
            "fuel_density": desc["fuel_density"],
        }
    )
    s.update(kw)
    return s


def _check_resultant(out, key, nodes, loads, F_exp, M_exp, p, fscale, arm):
    from oasv import ref_struct as RS

    F, M = RS.nodal_resultant(nodes, loads, p)
    fs = max(fscale, 1e-300)
    out.close(key + "/force", F, F_exp, rtol=TOL, scale=fs)
    out.close(key + "/moment", M, M_exp, rtol=TOL, scale=fs * arm)


def _expected(desc, nodes, A, Aint, locs, pm, th, sym):
    """first-principles quantities"""
    from oasv import ref_struct as RS

    L = RS.element_lengths(nodes)
    mid = RS.midpoints(nodes)
    n = desc["load_factor"]
    em = desc["mrho"] * A * L * desc["wwr"]
    mass = float(np.sum(em)) * (2.0 if sym else 1.0)
    cg = (em[:, None] * mid).sum(axis=0) / float(np.sum(em))
    if sym:
        cg[1] = 0.0
    vols = L * Aint
    Wfuel = (desc["fuel_mass"] + desc["Wf_reserve"]) * RS.G0 * n / (2.0 if sym else 1.0)
    wf = vols / vols.sum() * Wfuel
    down = np.array([0.0, 0.0, -1.0])
    fwd = np.array([-1.0, 0.0, 0.0])
    return dict(
        L=L,
        mid=mid,
        em=em,
        mass=mass,
        cg=cg,
        vols=vols,
        f_struct=np.outer(em * RS.G0 * n, down),
        f_fuel=np.outer(wf, down),
        f_pm=np.outer(pm * RS.G0 * n, down),
        f_thrust=np.outer(th, fwd),
        delta=float(vols.sum()) - (desc["fuelburn"] + desc["Wf_reserve"]) / (2.0 if sym else 1.0) / desc["fuel_density"],
    )


def _arm(nodes, locs, p):
    pts = np.vstack([nodes, locs]) if len(locs) else nodes
    return float(np.max(np.linalg.norm(pts - p, axis=1))) + 1e-12


def _labels(out, desc, sym, ny, nodes, locs):
    out.label("symmetric" if sym else "full_span", "layout=" + desc["beam"]["layout"], "ny=2" if ny == 2 else "ny>2")
    n = desc["load_factor"]
    out.label("load_factor=0" if n == 0 else ("load_factor<0" if n < 0 else "load_factor>0"))
    out.label("n_point_masses=%d" % len(desc["masses"]))
    for m in desc["masses"]:
        out.label("place=" + m["place"])
    if desc["Wf_reserve"] > 0:
        out.label("reserve>0")
    if desc["fuel_mass"] == 0:
        out.label("fuel_mass=0")


# ----------------------------------------------------------------------------------------------------------------
# layer (a): components


def verdict_components(desc):
    from oasv import ref_struct as RS
    from openaerostruct.structures.compute_point_mass_loads import ComputePointMassLoads
    from openaerostruct.structures.compute_thrust_loads import ComputeThrustLoads
    from openaerostruct.structures.fuel_loads import FuelLoads
    from openaerostruct.structures.fuel_vol import WingboxFuelVol
    from openaerostruct.structures.structural_cg import StructuralCG
    from openaerostruct.structures.total_loads import TotalLoads
    from openaerostruct.structures.weight import Weight
    from openaerostruct.structures.wing_weight_loads import StructureWeightLoads
    from openaerostruct.structures.wingbox_fuel_vol_delta import WingboxFuelVolDelta

    out = Outcome()
    nodes, ny, A, Aint, locs, pm, th = _expand(desc)
    sym = desc["beam"]["kind"] == "sym"
    npm = len(pm)
    kw = {"n_point_masses": npm} if npm else {}
    surf = _surface(desc, ny, sym, struct_weight_relief=True, distributed_fuel_weight=True, **kw)
    if desc.get("numpy_flag"):
        surf["symmetry"] = np.bool_(sym)
        out.label("symmetry_flag=numpy.bool_")
    x = _expected(desc, nodes, A, Aint, locs, pm, th, sym)
    p = np.array(desc["ref_point"], float)
    arm = _arm(nodes, locs, p)
    n = desc["load_factor"]
    U = dict(nodes="m", A="m**2", A_int="m**2", element_mass="kg", structural_mass="kg", fuel_vols="m**3", fuel_mass="kg",
             fuelburn="kg", point_mass_locations="m", point_masses="kg", engine_thrusts="N", loads="N",
             struct_weight_loads="N", fuel_weight_loads="N", loads_from_point_masses="N", loads_from_thrusts="N")

    # mass / cg
    pw = B.run_comp(Weight(surface=surf), dict(A=A, nodes=nodes), U)
    em = pw.get_val("element_mass").copy()
    sm = float(pw.get_val("structural_mass")[0])
    out.close("mass/element_mass", em, x["em"], rtol=TOL)
    out.close("mass/structural_mass", sm, x["mass"], rtol=TOL)
    pc = B.run_comp(StructuralCG(surface=surf), dict(nodes=nodes, structural_mass=x["mass"], element_mass=x["em"]), U)
    out.close("cg", pc.get_val("cg_location"), x["cg"], rtol=TOL, scale=float(np.max(np.abs(nodes))) + 1e-12)

    # structural weight loads
    ps = B.run_comp(StructureWeightLoads(surface=surf), dict(element_mass=x["em"], nodes=nodes, load_factor=n), U)
    SW = ps.get_val("struct_weight_loads").copy()
    Fe, Me = RS.point_resultant(x["mid"], x["f_struct"], p)
    _check_resultant(out, "struct_weight", nodes, SW, Fe, Me, p, float(np.sum(x["em"])) * RS.G0 * max(abs(n), 1e-3), arm)

    # fuel
    pv = B.run_comp(WingboxFuelVol(surface=surf), dict(nodes=nodes, A_int=Aint), U)
    out.close("fuel_vols", pv.get_val("fuel_vols"), x["vols"], rtol=TOL)
    pf = B.run_comp(FuelLoads(surface=surf), dict(fuel_vols=x["vols"], nodes=nodes, fuel_mass=desc["fuel_mass"], load_factor=n), U)
    FL = pf.get_val("fuel_weight_loads").copy()
    Fe, Me = RS.point_resultant(x["mid"], x["f_fuel"], p)
    wtot = (desc["fuel_mass"] + desc["Wf_reserve"]) * RS.G0 * max(abs(n), 1e-3) + 1e-9
    _check_resultant(out, "fuel", nodes, FL, Fe, Me, p, wtot, arm)
    pd = B.run_comp(WingboxFuelVolDelta(surface=surf), dict(fuelburn=desc["fuelburn"], fuel_vols=x["vols"]), U)
    out.close("fuel_vol_delta", pd.get_val("fuel_vol_delta"), x["delta"], rtol=TOL,
              scale=float(x["vols"].sum()) + (desc["fuelburn"] + desc["Wf_reserve"]) / desc["fuel_density"])

    # point masses / thrusts
    ext = B.nodal_loads(desc["loads"], ny, 0)
    tot_in = dict(loads=ext, struct_weight_loads=SW, fuel_weight_loads=FL)
    total_exp = ext + SW + FL
    if npm:
        pp = B.run_comp(ComputePointMassLoads(surface=surf), dict(point_mass_locations=locs, point_masses=pm, nodes=nodes, load_factor=n), U)
        PL = pp.get_val("loads_from_point_masses").copy()
        Fe, Me = RS.point_resultant(locs, x["f_pm"], p)
        _check_resultant(out, "point_mass", nodes, PL, Fe, Me, p, float(np.sum(pm)) * RS.G0 * max(abs(n), 1e-3) + 1e-9, arm)
        pt = B.run_comp(ComputeThrustLoads(surface=surf), dict(point_mass_locations=locs, engine_thrusts=th, nodes=nodes), U)
        TL = pt.get_val("loads_from_thrusts").copy()
        Fe, Me = RS.point_resultant(locs, x["f_thrust"], p)
        _check_resultant(out, "thrust", nodes, TL, Fe, Me, p, float(np.sum(th)) + 1e-9, arm)
        w = pp.get_val("nodal_weightings")
        out.close("point_mass/weights_sum_to_one", w.sum(axis=1), np.ones(npm), rtol=1e-12)
        out.true("point_mass/weights_nonnegative", bool(np.all(w >= 0)))
        tot_in.update(loads_from_point_masses=PL, loads_from_thrusts=TL)
        total_exp = total_exp + PL + TL
    # total loads = sum of sources
    ptl = B.run_comp(TotalLoads(surface=surf), tot_in, U)
    out.close("total_loads", ptl.get_val("total_loads"), total_exp, rtol=1e-14, scale=float(np.max(np.abs(total_exp))) + 1e-300)

    _labels(out, desc, sym, ny, nodes, locs)
    any_load = (n != 0 and (np.sum(x["em"]) > 0 or desc["fuel_mass"] + desc["Wf_reserve"] > 0 or np.sum(pm) > 0)) or np.sum(th) > 0
    out.nontrivial = bool(x["mass"] > 0 and any_load)
    return out


# ----------------------------------------------------------------------------------------------------------------
# layer (b): SpatialBeamAlone with every load source switched on


def alone_config():
    return st.fixed_dictionaries(
        dict(
            mesh=S.mesh(kinds=("left", "full", "asym"), nx=(2, 3), nyh=(2, 4), winglet=True),
            model=st.sampled_from(["wingbox", "tube"]),
            fem_origin=S.fl(0.0, 1.0, 0.35),
            t_rel=S.fl(0.2, 0.9, 0.5),
            toc=S.fl(0.08, 0.18, 0.12),
            relief=st.booleans(),
            fuel=st.booleans(),
            mrho=S.logfl(2.0, 4.3, 3000.0),
            wwr=S.fl(0.5, 3.0, 1.0, 2.0),
            load_factor=S.fl(-3.0, 5.0, 1.0, 0.0, -1.0, 2.5),
            fuel_mass=st.one_of(st.just(0.0), S.logfl(0.0, 5.0, 1.0e4)),
            Wf_reserve=st.one_of(st.just(0.0), S.logfl(0.0, 4.5, 1.5e4)),
            masses=masses(3),
            ref_point=st.lists(S.fl(-20.0, 20.0, 0.0), min_size=3, max_size=3),
            loads=B.loads(),
            numpy_flag=st.sampled_from([False, False, True]),
        )
    )


def verdict_alone(desc):
    import openmdao.api as om
    from oasv import ref_struct as RS
    from oasv.meshes import build_mesh
    from oasv.models import struct_surface
    from openaerostruct.structures.struct_groups import SpatialBeamAlone

    out = Outcome()
    md = desc["mesh"]
    mesh = build_mesh(md)
    sym = md["kind"] == "left"
    ny = mesh.shape[1]
    model = desc["model"]
    fuel = bool(desc["fuel"]) and model == "wingbox"  # fuel volumes exist for the wingbox only
    chord = float(np.min(np.linalg.norm(mesh[-1] - mesh[0], axis=1)))
    kw = dict(fem_origin=desc["fem_origin"], t_over_c_cp=np.array([desc["toc"]]), mrho=desc["mrho"], wing_weight_ratio=desc["wwr"],
              Wf_reserve=desc["Wf_reserve"], struct_weight_relief=bool(desc["relief"]), distributed_fuel_weight=fuel)
    if model == "tube":
        kw["thickness_cp"] = desc["t_rel"] * 0.5 * desc["toc"] * chord * np.ones(2)
    else:
        kw["spar_thickness_cp"] = 0.05 * desc["t_rel"] * desc["toc"] * chord * np.ones(2)
        kw["skin_thickness_cp"] = 0.08 * desc["t_rel"] * desc["toc"] * chord * np.ones(2)
    npm = len(desc["masses"])
    if npm:
        kw["n_point_masses"] = npm
    surf = struct_surface("wing", mesh, sym, model=model, **kw)
    if desc.get("numpy_flag"):
        surf["symmetry"] = np.bool_(sym)
        out.label("symmetry_flag=numpy.bool_")
    ext = B.nodal_loads(desc["loads"], ny, 0)
    n = desc["load_factor"]

    prob = om.Problem(reports=False)
    ivc = om.IndepVarComp()
    ivc.add_output("loads", val=ext, units="N")
    ivc.add_output("load_factor", val=n)
    prob.model.add_subsystem("indep_vars", ivc, promotes=["*"])
    prob.model.add_subsystem("wing", SpatialBeamAlone(surface=surf), promotes=["*"])
    # first pass to learn the nodes (point-mass placement classes refer to them)
    if fuel:
        ivc.add_output("fuel_mass", val=desc["fuel_mass"], units="kg")
        prob.model.connect("struct_setup.fuel_vols", "struct_states.fuel_vols")
        prob.model.connect("fuel_mass", "struct_states.fuel_mass")
    if npm:
        ivc.add_output("point_masses", val=np.zeros(npm), units="kg")
        ivc.add_output("point_mass_locations", val=np.zeros((npm, 3)), units="m")
        ivc.add_output("engine_thrusts", val=np.zeros(npm), units="N")
    prob.setup()
    prob.run_model()
    nodes = prob.get_val("nodes").copy()
    locs, pm, th = [], [], []
    for m in desc["masses"]:
        k = int(round(m["node"] * (ny - 1)))
        loc = np.array(m["loc"], float)
        if m["place"] == "at_node":
            loc = nodes[k].copy()
        elif m["place"] == "same_span_station":
            loc[1] = nodes[k, 1]
        elif m["place"] == "far":
            loc = loc * 3.0
        locs.append(loc)
        pm.append(m["mass"])
        th.append(m["thrust"])
    locs, pm, th = np.array(locs, float).reshape(-1, 3), np.array(pm, float), np.array(th, float)
    if npm:
        prob.set_val("point_masses", pm)
        prob.set_val("point_mass_locations", locs)
        prob.set_val("engine_thrusts", th)
        prob.run_model()

    A = np.ravel(prob.get_val("A"))
    L = RS.element_lengths(nodes)
    mid = RS.midpoints(nodes)
    em = desc["mrho"] * A * L * desc["wwr"]
    out.close("alone/element_mass", prob.get_val("element_mass"), em, rtol=TOL)
    out.close("alone/structural_mass", prob.get_val("structural_mass"), em.sum() * (2.0 if sym else 1.0), rtol=TOL)
    cg = (em[:, None] * mid).sum(axis=0) / em.sum()
    if sym:
        cg[1] = 0.0
    out.close("alone/cg", prob.get_val("cg_location"), cg, rtol=TOL, scale=float(np.max(np.abs(nodes))) + 1e-12)
    p = np.array(desc["ref_point"], float)
    arm = _arm(nodes, locs, p)
    down = np.array([0.0, 0.0, -1.0])
    pts, frc = [], []
    if desc["relief"]:
        pts.append(mid)
        frc.append(np.outer(em * RS.G0 * n, down))
    if fuel:
        vols = L * np.ravel(prob.get_val("A_int"))
        out.close("alone/fuel_vols", prob.get_val("struct_setup.fuel_vols"), vols, rtol=TOL)
        W = (desc["fuel_mass"] + desc["Wf_reserve"]) * RS.G0 * n / (2.0 if sym else 1.0)
        pts.append(mid)
        frc.append(np.outer(vols / vols.sum() * W, down))
    if npm:
        pts.append(locs)
        frc.append(np.outer(pm * RS.G0 * n, down))
        pts.append(locs)
        frc.append(np.outer(th, np.array([-1.0, 0.0, 0.0])))
    Fe, Me = RS.nodal_resultant(nodes, ext, p)
    fscale = float(np.sum(np.abs(ext[:, :3])))
    for P_, F_ in zip(pts, frc):
        f, m = RS.point_resultant(P_, F_, p)
        Fe, Me = Fe + f, Me + m
        fscale += float(np.sum(np.abs(F_)))
    tl = prob.get_val("struct_states.total_loads")
    mscale = fscale * arm + float(np.sum(np.abs(ext[:, 3:])))
    F, M = RS.nodal_resultant(nodes, tl, p)
    out.close("alone/total_loads/force", F, Fe, rtol=TOL, scale=fscale + 1e-300)
    out.close("alone/total_loads/moment", M, Me, rtol=TOL, scale=mscale + 1e-300)
    # the right-hand side of the FEM is these total loads (entries below the 1e-6 N threshold are zeroed by design)
    rhs = prob.get_val("struct_states.forces")[: 6 * ny].reshape(ny, 6)
    big = np.abs(tl) >= 1e-4
    out.close("alone/rhs_is_total_loads", rhs[big], tl[big], rtol=1e-15)

    out.label("model=" + model, "kind=" + md["kind"], "relief" if desc["relief"] else "no_relief", "fuel" if fuel else "no_fuel",
              "n_point_masses=%d" % npm)
    for m in desc["masses"]:
        out.label("place=" + m["place"])
    out.label("load_factor=0" if n == 0 else ("load_factor<0" if n < 0 else "load_factor>0"))
    out.nontrivial = bool(em.sum() > 0 and (desc["relief"] or fuel or npm) )
    return out


_DEF = dict(beam=B.BEAM_DEFAULT, eA=-2.5, eAint=-1.0, spread=0.0, mrho=3000.0, wwr=1.0, load_factor=1.0, fuel_mass=0.0,
            Wf_reserve=0.0, fuel_density=803.0, fuelburn=0.0, ref_point=[0.0, 0.0, 0.0], loads=B.LOADS_DEFAULT)

SUBS = [
    Sub("components", config(), verdict_components, quick=1920, thorough=50000, defaults=_DEF),
    Sub("alone_all_sources", alone_config(), verdict_alone, quick=960, thorough=24000),
]
