"""Runner: shards Hypothesis searches over processes, collects/buckets failures, filters known findings,
minimises, writes replay + evidence files, prints VIOLATION / KNOWN-FINDING lines.

Exit codes: 0 property held on everything explored; 1 violation(s); 2 harness error."""
import argparse
import hashlib
import importlib
import json
import os
import shutil
import sys
import tempfile
import time
import traceback

from . import env

env.prepare()

from .core import Discard, HistorySub, Inconclusive, Outcome, digest, jsonable  # noqa: E402

VERIF = env.VERIF_DIR


def shard_seed(seed, pid, sub, shard):
    h = hashlib.sha256(("%s:%s:%s:%s" % (seed, pid, sub, shard)).encode()).hexdigest()
    return int(h[:12], 16)


def load_known():
    out = []
    path = os.path.join(VERIF, "known_findings.json")
    if os.path.exists(path):
        with open(path) as f:
            out.extend(json.load(f)["findings"])
    return out


def load_module(pid):
    return importlib.import_module("props.%s" % pid.lower())


# ------------------------------------------------------------------------------------------------------------------
# exception classification


def classify_exception(exc):
    """-> (kind, key, text) with kind in inconclusive | discard | crash | harness"""
    if isinstance(exc, Inconclusive):
        return "inconclusive", "inconclusive", str(exc)
    if isinstance(exc, Discard):
        return "discard", "discard", str(exc)
    try:
        import openmdao.api as om

        if isinstance(exc, om.AnalysisError):
            return "inconclusive", "inconclusive:AnalysisError", str(exc)[:200]
    except Exception:
        pass
    oas_root = os.path.join(env.REPO, "openaerostruct") + os.sep
    inner = None
    inner_exc = exc
    # walk the exception chain: OpenMDAO re-raises user-function errors (sometimes failing while formatting them)
    chain = []
    e = exc
    while e is not None and e not in chain:
        chain.append(e)
        e = e.__cause__ or e.__context__
    for e in chain:
        for fr in traceback.extract_tb(e.__traceback__):
            if os.path.abspath(fr.filename).startswith(oas_root):
                inner = fr
                inner_exc = e
        if inner is not None:
            break
    text = "".join(traceback.format_exception(type(exc), exc, exc.__traceback__))[-6000:]
    if inner is not None:
        rel = os.path.relpath(inner.filename, env.REPO)
        return "crash", "crash:%s@%s:%s" % (type(inner_exc).__name__, rel, inner.name), text
    return "harness", "harness:%s" % type(exc).__name__, text


def safe_eval(fn, *args):
    """run a verdict; -> summary dict"""
    try:
        out = fn(*args)
        if not isinstance(out, Outcome):
            raise env.HarnessError("verdict did not return an Outcome")
        s = out.summary()
        s["status"] = "ok"
        return s
    except BaseException as exc:  # noqa: BLE001
        if isinstance(exc, (KeyboardInterrupt, SystemExit)):
            raise
        kind, key, text = classify_exception(exc)
        s = Outcome().summary()
        s["status"] = kind
        s["nontrivial"] = False
        if kind == "crash":
            s["fails"] = [{"key": key, "msg": text, "err": None, "tol": None}]
            s["nontrivial"] = True
        elif kind == "harness":
            s["harness"] = text
        else:
            s["inconclusive"] = [key + " " + text[:200]]
        return s


# ------------------------------------------------------------------------------------------------------------------
# worker side


def _hyp_settings(n, shrink, steps=None):
    from hypothesis import HealthCheck, Phase, settings

    kw = dict(
        max_examples=max(1, n),
        deadline=None,
        database=None,
        derandomize=False,
        report_multiple_bugs=False,
        suppress_health_check=list(HealthCheck),
        phases=[Phase.generate, Phase.shrink] if shrink else [Phase.generate],
        print_blob=False,
    )
    if steps is not None:
        kw["stateful_step_count"] = steps
    return settings(**kw)


def run_shard(task):
    """Executed in a worker process.  task: dict(pid, sub, shard, n, seed, tier, known_keys, raise_key, scratch)"""
    env.prepare()
    import warnings

    from oasv import cover

    cover.start(env.REPO)
    warnings.filterwarnings("ignore")
    t0 = time.time()
    res = {"task": {k: task[k] for k in ("pid", "sub", "shard", "n", "seed")}, "records": [], "harness": None}
    cwd = os.path.join(task["scratch"], "w%d_%d" % (os.getpid(), task["shard"]))
    os.makedirs(cwd, exist_ok=True)
    os.chdir(cwd)
    try:
        env.assert_tree()
        mod = load_module(task["pid"])
        sub = {s.name: s for s in mod.SUBS}[task["sub"]]
        if sub.kind == "given":
            _run_given(sub, task, res)
        else:
            _run_history(sub, task, res)
    except BaseException as exc:  # noqa: BLE001
        if isinstance(exc, KeyboardInterrupt):
            raise
        res["harness"] = "".join(traceback.format_exception(type(exc), exc, exc.__traceback__))[-4000:]
    finally:
        os.chdir(task["scratch"])
        shutil.rmtree(cwd, ignore_errors=True)
        cover.flush()
    res["wall_s"] = time.time() - t0
    return res


class _StopOnKey(Exception):
    pass


def _run_given(sub, task, res):
    from hypothesis import given, seed

    raise_key = task.get("raise_key")
    records = res["records"]
    last_fail = {}

    def body(desc):
        s = safe_eval(sub.verdict, desc)
        s["desc"] = jsonable(desc)
        s["digest"] = digest(desc)
        if raise_key is None:
            records.append(s)
        if s["status"] == "harness":
            raise env.HarnessError(s["harness"])
        if raise_key is not None and any(f["key"] == raise_key for f in s["fails"]):
            last_fail["rec"] = s
            raise _StopOnKey(raise_key)

    test = seed(task["seed"])(_hyp_settings(task["n"], shrink=raise_key is not None)(given(sub.strategy)(body)))
    try:
        test()
    except _StopOnKey:
        res["shrunk"] = last_fail.get("rec")
    except env.HarnessError as e:
        res["harness"] = str(e)


def _run_history(sub, task, res):
    from hypothesis import seed, strategies as st
    from hypothesis.stateful import RuleBasedStateMachine, initialize, precondition, rule, run_state_machine_as_test

    known = set(task.get("known_keys") or [])
    records = res["records"]
    shrink = task["tier"] == "thorough"

    class Fail(Exception):
        pass

    def __init__(self):
        RuleBasedStateMachine.__init__(self)
        self.interp = None
        self.cfg = None
        self.hist = []
        self.fails = []
        self.status = "ok"
        self.text = None

    def init(self, cfg):
        self.cfg = cfg
        self._guard(lambda: setattr(self, "interp", sub.make(cfg)))

    def _guard(self, fn):
        try:
            return fn()
        except BaseException as exc:  # noqa: BLE001
            if isinstance(exc, (KeyboardInterrupt, SystemExit, Fail)):
                raise
            kind, key, text = classify_exception(exc)
            if kind == "crash":
                self.fails.append({"key": key, "msg": text, "err": None, "tol": None})
                raise Fail(key)
            if kind == "harness":
                self.status = "harness"
                self.text = text
                raise env.HarnessError(text)
            self.status = kind
            self.text = key
            # inconclusive / discard: stop using this machine (mark interp dead)
            if self.interp is not None:
                try:
                    self.interp.close()
                except Exception:
                    pass
            self.interp = None
            return None

    def teardown(self):
        rec = Outcome().summary()
        interp = self.interp
        rec.update(
            status=self.status,
            desc={"cfg": jsonable(self.cfg), "history": jsonable(self.hist)},
            fails=self.fails,
        )
        if interp is not None:
            rec["labels"] = list(getattr(interp, "labels", []))
            rec["nontrivial"] = bool(getattr(interp, "nontrivial", lambda h: True)(self.hist))
            rec["residuals"] = dict(getattr(interp, "residuals", {}))
            try:
                interp.close()
            except Exception:
                pass
        else:
            rec["nontrivial"] = False
            if self.text:
                rec["inconclusive"] = [str(self.text)[:200]]
        if self.status == "harness":
            rec["harness"] = self.text
        rec["digest"] = digest(rec["desc"])
        records.append(rec)

    attrs = {"__init__": __init__, "_guard": _guard, "teardown": teardown}
    attrs["init"] = initialize(cfg=sub.init_strategy)(init)

    def make_rule(op, strat):
        def r(self, args):
            def go():
                out = self.interp.apply(op, args)
                self.hist.append([op, jsonable(args)])
                bad = [f for f in out.fails if f["key"] not in known]
                self.fails.extend(out.fails)
                if bad:
                    raise Fail(bad[0]["key"])

            self._guard(go)

        r.__name__ = "op_" + op
        r = rule(args=strat if strat is not None else st.just(None))(r)
        r = precondition(lambda self, _op=op: self.interp is not None and self.interp.enabled(_op))(r)
        return r

    for op, strat in sub.rules.items():
        attrs["op_" + op] = make_rule(op, strat)

    def idle(self):
        """keeps Hypothesis going after the interpreter died (non-convergent / inconclusive configuration)"""

    attrs["op__idle"] = precondition(lambda self: self.interp is None)(rule()(idle))
    Machine = type("Machine_" + sub.name, (RuleBasedStateMachine,), attrs)
    try:
        run_state_machine_as_test(
            seed(task["seed"])(Machine), settings=_hyp_settings(task["n"], shrink=shrink, steps=sub.steps[task["tier"]])
        )
    except Fail:
        pass
    except env.HarnessError as e:
        res["harness"] = str(e)


def replay_history(sub, desc):
    """Re-run a recorded history without Hypothesis -> summary"""

    def go():
        interp = sub.make(desc["cfg"])
        out = Outcome()
        try:
            for op, args in desc["history"]:
                if not interp.enabled(op):
                    continue
                o = interp.apply(op, args)
                out.fails.extend(o.fails)
            out.labels = list(getattr(interp, "labels", []))
        finally:
            interp.close()
        return out

    return safe_eval(go)


def eval_case(sub, desc):
    if sub.kind == "given":
        return safe_eval(sub.verdict, desc)
    return replay_history(sub, desc)


# ------------------------------------------------------------------------------------------------------------------
# minimisation (bounded, deterministic) used in the quick tier and as a second pass in the thorough tier


def _leaf_paths(d, prefix=()):
    if isinstance(d, dict):
        for k in sorted(d):
            yield from _leaf_paths(d[k], prefix + (k,))
    else:
        yield prefix, d


def _get(d, path):
    for k in path:
        if not isinstance(d, dict) or k not in d:
            return None
        d = d[k]
    return d


def _set(d, path, v):
    d = json.loads(json.dumps(d))
    x = d
    for k in path[:-1]:
        x = x[k]
    x[path[-1]] = v
    return d


def simplify(sub, desc, key, max_evals=40):
    """greedy: move descriptor leaves to the sub's defaults / drop history steps while the same key still fails"""
    evals = 0
    cur = jsonable(desc)

    def still(d):
        nonlocal evals
        evals += 1
        s = eval_case(sub, d)
        return any(f["key"] == key for f in s["fails"])

    if sub.kind == "history":
        hist = list(cur["history"])
        i = len(hist) - 1
        while i >= 0 and evals < max_evals:
            cand = dict(cur, history=hist[:i] + hist[i + 1 :])
            if still(cand):
                hist = cand["history"]
                cur = cand
            i -= 1
        return cur, evals
    defaults = getattr(sub, "defaults", None) or {}
    for path, dv in _leaf_paths(defaults):
        if evals >= max_evals:
            break
        v = _get(cur, path)
        if v is None or v == dv:
            continue
        try:
            cand = _set(cur, path, dv)
        except Exception:
            continue
        if still(cand):
            cur = cand
    return cur, evals


# ------------------------------------------------------------------------------------------------------------------
# parent side


def plan_tasks(mod, pid, tier, seed, scale, only, scratch, known_keys, workers):
    tasks = []
    for sub in mod.SUBS:
        if only and sub.name not in only:
            continue
        n = max(1, int(round(sub.budget[tier] * scale)))
        nshards = max(1, min(workers, sub.max_shards, n))
        base, extra = divmod(n, nshards)
        for k in range(nshards):
            nk = base + (1 if k < extra else 0)
            if nk <= 0:
                continue
            tasks.append(
                dict(
                    pid=pid,
                    sub=sub.name,
                    shard=k,
                    n=nk,
                    seed=shard_seed(seed, pid, sub.name, k),
                    tier=tier,
                    known_keys=known_keys,
                    raise_key=None,
                    scratch=scratch,
                )
            )
    return tasks


def run_replays(mod, pid, only):
    """committed regression cases: /verif/replays/<pid>/*.json ; each must evaluate without (unknown) failures"""
    d = os.path.join(VERIF, "replays", pid)
    out = []
    if not os.path.isdir(d):
        return out
    subs = {s.name: s for s in mod.SUBS}
    for fn in sorted(os.listdir(d)):
        if not fn.endswith(".json"):
            continue
        with open(os.path.join(d, fn)) as f:
            rp = json.load(f)
        if rp.get("sub") not in subs or (only and rp["sub"] not in only):
            continue
        s = eval_case(subs[rp["sub"]], rp["desc"])
        s["desc"] = rp["desc"]
        s["digest"] = digest(rp["desc"])
        s["sub"] = rp["sub"]
        s["from_replay"] = fn
        out.append(s)
    return out


def main(argv=None):
    ap = argparse.ArgumentParser(prog="check")
    ap.add_argument("pid")
    ap.add_argument("--tier", default=os.environ.get("VERIF_TIER", "quick"), choices=["quick", "thorough"])
    ap.add_argument("--seed", type=int, default=None)
    ap.add_argument("--workers", type=int, default=int(os.environ.get("VERIF_WORKERS", "16")))
    ap.add_argument("--scale", type=float, default=float(os.environ.get("VERIF_SCALE", "1")))
    ap.add_argument("--sub", action="append", default=None, help="restrict to sub-check(s)")
    ap.add_argument("--replay", default=None, help="re-evaluate one replay file without Hypothesis")
    ap.add_argument("--no-evidence", action="store_true")
    a = ap.parse_args(argv)
    pid = a.pid.upper()
    seed = a.seed if a.seed is not None else int(os.environ.get("VERIF_SEED", "1") or 1)
    os.environ["PYTHONHASHSEED"] = os.environ.get("PYTHONHASHSEED", "0")
    t0 = time.time()
    try:
        env.assert_tree()
        mod = load_module(pid)
    except Exception:
        traceback.print_exc()
        print("HARNESS-ERROR property=%s cannot load" % pid)
        return 2
    known = [k for k in load_known() if k["property"] == pid]
    known_active = {k["key"]: k for k in known if k["status"] == "known"}
    subs = {s.name: s for s in mod.SUBS}

    if a.replay:
        a.replay = os.path.abspath(a.replay)
    scratch = tempfile.mkdtemp(prefix="oasv_%s_" % pid)
    os.chdir(scratch)
    try:
        if a.replay:
            return _do_replay(a.replay, subs, pid, known_active)
        return _do_run(a, pid, seed, mod, subs, known, known_active, scratch, t0)
    finally:
        os.chdir(VERIF)
        shutil.rmtree(scratch, ignore_errors=True)


def _do_replay(path, subs, pid, known_active):
    with open(path) as f:
        rp = json.load(f)
    sub = subs[rp["sub"]]
    s = eval_case(sub, rp["desc"])
    print(json.dumps({k: s[k] for k in ("status", "fails", "labels", "inconclusive")}, indent=1)[:6000])
    if s["status"] == "harness":
        print(s.get("harness"))
        return 2
    bad = [f for f in s["fails"] if f["key"] not in known_active]
    for k in sorted({f["key"] for f in s["fails"] if f["key"] in known_active}):
        print("KNOWN-FINDING: property=%s %s" % (pid, known_active[k]["what"]))
    if bad:
        print("VIOLATION property=%s replay=%s" % (pid, path))
        return 1
    print("replay passes")
    return 0


def _do_run(a, pid, seed, mod, subs, known, known_active, scratch, t0):
    from concurrent.futures import ProcessPoolExecutor, as_completed
    import multiprocessing as mp

    tier = a.tier
    tasks = plan_tasks(mod, pid, tier, seed, a.scale, a.sub, scratch, sorted(known_active), a.workers)
    records = run_replays(mod, pid, a.sub)
    n_replays = len(records)
    harness = []
    shard_walls = []
    ctx = mp.get_context("spawn")
    with ProcessPoolExecutor(max_workers=a.workers, mp_context=ctx) as ex:
        futs = {ex.submit(run_shard, t): t for t in tasks}
        for fu in as_completed(futs):
            t = futs[fu]
            try:
                r = fu.result()
            except BaseException as exc:  # noqa: BLE001  worker died
                harness.append("worker for %s/%s shard %s died: %r" % (pid, t["sub"], t["shard"], exc))
                continue
            if r["harness"]:
                harness.append("%s/%s shard %s: %s" % (pid, t["sub"], t["shard"], r["harness"]))
            for rec in r["records"]:
                rec["sub"] = t["sub"]
                rec["shard"] = t["shard"]
                rec["shard_seed"] = t["seed"]
                rec["shard_n"] = t["n"]
                records.append(rec)
            shard_walls.append(r.get("wall_s", 0.0))

    for rec in records:
        if rec.get("status") == "harness":
            harness.append("%s/%s record: %s" % (pid, rec.get("sub"), rec.get("harness") or "harness status without text"))
    # ---- bucket failures
    buckets = {}
    for rec in records:
        for f in rec["fails"]:
            buckets.setdefault((rec["sub"], f["key"]), []).append((rec, f))
    violations = []
    known_seen = {}
    os.makedirs(os.path.join(VERIF, "replays", "found"), exist_ok=True)
    for (subname, key), items in sorted(buckets.items()):
        if key in known_active:
            known_seen[key] = known_seen.get(key, 0) + len(items)
            continue
        items.sort(key=lambda it: len(json.dumps(it[0]["desc"])))
        rec, f = items[0]
        sub = subs[subname]
        desc = rec["desc"]
        evals = 0
        shrunk_by = "none"
        if tier == "thorough" and sub.kind == "given" and "shard_seed" in rec:
            # deterministic re-find with the shard's seed, raising on this key, Hypothesis shrinking on
            task = dict(
                pid=pid, sub=subname, shard=rec["shard"], n=rec["shard_n"], seed=rec["shard_seed"], tier=tier,
                known_keys=sorted(known_active), raise_key=key, scratch=scratch,
            )
            try:
                with ProcessPoolExecutor(max_workers=1, mp_context=ctx) as ex:
                    r = ex.submit(run_shard, task).result(timeout=900)
                if r.get("shrunk"):
                    desc = r["shrunk"]["desc"]
                    shrunk_by = "hypothesis"
            except BaseException:  # noqa: BLE001
                pass
        try:
            desc2, evals = simplify(sub, desc, key)
            if desc2 != desc:
                shrunk_by = (shrunk_by + "+greedy") if shrunk_by != "none" else "greedy"
            desc = desc2
        except BaseException:  # noqa: BLE001
            pass
        safe = "".join(c if c.isalnum() or c in "-_." else "_" for c in "%s_%s" % (subname, key))[:120]
        path = os.path.join(VERIF, "replays", "found", "%s_%s_seed%d.json" % (pid, safe, seed))
        with open(path, "w") as fh:
            json.dump(
                {"property": pid, "sub": subname, "key": key, "msg": f["msg"], "err": f["err"], "tol": f["tol"],
                 "desc": desc, "n_failing_cases": len(items), "shrunk_by": shrunk_by, "seed": seed, "tier": tier},
                fh, indent=1,
            )
        violations.append({"sub": subname, "key": key, "n": len(items), "replay": path, "msg": f["msg"][:300]})

    # ---- evidence
    evals = len(records)
    nontriv = {}
    classes = {}
    status = {}
    per_sub = {}
    worst = {}
    samples = []
    for rec in records:
        status[rec["status"]] = status.get(rec["status"], 0) + 1
        ps = per_sub.setdefault(rec["sub"], {"evaluations": 0, "nontrivial_distinct": set(), "inconclusive": 0})
        ps["evaluations"] += 1
        if rec["status"] in ("inconclusive", "discard") or rec["inconclusive"]:
            ps["inconclusive"] += 1
        if rec["nontrivial"] and rec["status"] in ("ok", "crash"):
            nontriv[rec["sub"] + ":" + rec["digest"]] = 1
            ps["nontrivial_distinct"].add(rec["digest"])
        for l in rec["labels"]:
            classes[l] = classes.get(l, 0) + 1
        for name, (ratio, err, tol) in rec.get("residuals", {}).items():
            k = rec["sub"] + "/" + name
            if k not in worst or ratio > worst[k]["ratio"]:
                worst[k] = {"ratio": ratio, "err": err, "tol": tol}
    seen_sub = {}
    for rec in records:
        if rec["status"] == "ok" and rec["nontrivial"] and seen_sub.get(rec["sub"], 0) < 3:
            seen_sub[rec["sub"]] = seen_sub.get(rec["sub"], 0) + 1
            samples.append({"sub": rec["sub"], "labels": rec["labels"], "desc": rec["desc"],
                            "worst_ratio": max([v[0] for v in rec.get("residuals", {}).values()] or [0.0])})
    for ps in per_sub.values():
        ps["nontrivial_distinct"] = len(ps["nontrivial_distinct"])
    wall = time.time() - t0
    ev = {
        "property_id": pid,
        "tier": tier,
        "seed": seed,
        "level": "exploration",
        "wall_s": round(wall, 2),
        "violations": len(violations),
        "assumptions": list(getattr(mod, "ASSUMPTIONS", [])),
        "coverage": {
            "evaluations": evals,
            "distinct_nontrivial": len(nontriv),
            "rule": getattr(mod, "RULE", ""),
            "samples": samples[:12],
            "classes": dict(sorted(classes.items())),
            "status_counts": status,
            "per_subcheck": per_sub,
            "committed_replays_run": n_replays,
            "worst_residual_over_tolerance": {k: worst[k] for k in sorted(worst)},
            "known_findings_seen": known_seen,
            "violations": violations,
            "harness_errors": harness[:5],
            "shards": len(tasks),
            "cpu_s": round(sum(shard_walls), 1),
        },
    }
    if not a.no_evidence and not a.sub:
        os.makedirs(os.path.join(VERIF, "evidence"), exist_ok=True)
        with open(os.path.join(VERIF, "evidence", "%s.json" % pid), "w") as fh:
            json.dump(jsonable(ev), fh, indent=1)

    # ---- report
    print("property=%s tier=%s seed=%d evaluations=%d distinct_nontrivial=%d wall=%.1fs status=%s"
          % (pid, tier, seed, evals, len(nontriv), wall, status))
    for name, ps in sorted(per_sub.items()):
        print("  sub %-28s evals=%-6d nontrivial=%-6d inconclusive=%d" % (name, ps["evaluations"], ps["nontrivial_distinct"], ps["inconclusive"]))
    if os.environ.get("VERIF_VERBOSE"):
        print("  classes:", json.dumps(dict(sorted(classes.items()))))
        for k in sorted(worst):
            print("  resid %-50s ratio=%.2e err=%.2e tol=%.2e" % (k, worst[k]["ratio"], worst[k]["err"], worst[k]["tol"]))
    for key, n in sorted(known_seen.items()):
        kf = known_active[key]
        print("KNOWN-FINDING: property=%s %s [%s, %d case(s)]" % (pid, kf["what"], kf["id"], n))
    for v in violations:
        print("  violation sub=%s key=%s cases=%d :: %s" % (v["sub"], v["key"], v["n"], v["msg"].replace("\n", " ")[:240]))
        print("VIOLATION property=%s replay=%s" % (pid, v["replay"]))
    for h in harness[:3]:
        print("HARNESS-ERROR " + h[-(20000 if os.environ.get("VERIF_VERBOSE") else 1500):])
    if violations:
        return 1
    if harness:
        return 2
    if evals == 0:
        print("HARNESS-ERROR no cases evaluated")
        return 2
    return 0


if __name__ == "__main__":
    sys.exit(main())
