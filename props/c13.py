"""C13  Geometry design variables act as documented; defaults leave the mesh unchanged (DESIGN.md section 4, C13)."""
import copy

import numpy as np
from hypothesis import strategies as st

from oasv import ref_geom as G
from oasv import strategies as S
from oasv.core import Outcome, Sub
from oasv.meshes import MESH_DEFAULT, SIDE_DEFAULT, build_mesh

RULE = (
    "Hypothesis draws an input mesh (symmetric left half / mirror-symmetric full span / asymmetric full span with equal "
    "half spans; nx 2-4, ny per half 2-5 (fine subs: nx 3-7, ny per half 5-11); families flat, planar cambered / pre-twisted, and general = sweep, taper, "
    "dihedral, winglet, linear twist, camber, smooth noise; root offsets in x, z and - as a labelled class - y), a "
    "reference-axis position in [0,1] (0, 0.25, 1 injected) and design-variable values (taper 0.1-2, chord 0.2-3, sweep "
    "+-45 deg, dihedral +-30 deg, twist +-20 deg, span x0.3-3, shears +- a chord; defaults injected).  Layer 1 "
    "(sub components): the nine transformation components, each alone on that in_mesh, first at default values (output "
    "== input) then at the drawn values against a from-the-text re-statement (oasv/ref_geom.py) plus the stated "
    "invariants (sweep: y and shoelace planform area unchanged, positive aft; dihedral positive up; span: tip-to-tip "
    "reference-axis extent; taper 1 at root / ratio at tip; chord and twist keep the reference axis, twist keeps chord "
    "length, turns the chord by exactly the angle, leading edge up; shears translate).  Layer 2 (sub geometry_group): "
    "the Geometry group with no / all-default / a drawn subset of design-variable keys (values from the dictionary or "
    "set after setup, 1-6 control points) against the documented chain taper>chord>sweep>xshear>span>yshear>dihedral>"
    "zshear>twist composed from the same re-statements, fed with OAS's own spline outputs; spline outputs are checked "
    "separately (sub splines, incl. TubeGroup / WingboxGroup): equal control points => constant, end control points "
    "reproduced at tip and root for nodal distributions, values inside the control-point range.  Two finding probes "
    "cover the classes excluded from the main search by construction.  non-trivial = >= 3 spanwise stations and "
    "(drawn-value cases) output differs from input by > 1e-6 span; distinct = descriptor digest (6 significant digits)."
)
ASSUMPTIONS = [
    "tolerance 1e-10 relative to the largest mesh extent (no-op: 1e-12); measured floor ~1e-15",
    "symmetric surfaces are generated as LEFT halves (root = last column, on y=0); right halves belong to C07 (KF-C07-rightDV)",
    "full-span meshes have odd ny, root in the middle column and streamwise sections (constant y along a chordwise line)",
    "shared convention (not documented, taken from the code): a station's twist axis follows the dihedral of its inboard "
    "reference-axis segment, the root station rotates about y",
    "Rotate on meshes with (reference-axis z-slope) and (chord vectors not parallel to x) at one station is excluded from "
    "the main search and routed to probe_rotate (finding KF-C13-rotate); the eight other transformations are still "
    "checked on those meshes (group: compared at the input of the twist rotation)",
    "Taper on full-span surfaces whose root is not midway between the tips at y=0 (y offset, unequal half spans) is "
    "routed to probe_taper_offset (finding KF-C13-taper-offset); Stretch scales y about y=0, so for y-offset surfaces only "
    "the extent and root-relative positions are asserted",
    "chord scaling: x-extent about the reference axis, reference axis and y are asserted; the z part of a chord vector "
    "may either be scaled with it (what the code does) or left alone (what the ScaleX docstring says)",
    "y-shear amplitudes are kept below 0.4 of the smallest station spacing (after a preceding span change) so that spanwise ordering survives",
]

RTOL = 1e-10
NOOP_RTOL = 1e-12
DV_DEFAULT = dict(taper=1.0, sweep=0.0, dihedral=0.0, span_factor=1.0)


# ----------------------------------------------------------------------------------------------------------------
# strategies


def _dist(lo, hi, default):
    return st.fixed_dictionaries(
        dict(kind=st.sampled_from(["const", "linear", "rand"]), a=S.fl(lo, hi, default), b=S.fl(lo, hi, default),
             seed=st.integers(0, 10 ** 6))
    )


def _flatten_side(s):
    s["twist"] = 0.0
    s["camber"] = 0.0


def _planar_side(s, root_twist):
    s["dihedral"] = 0.0
    s["winglet"] = 0.0
    s["twist"] = 0.0
    if root_twist != 0.0:
        s["taper"] = 1.0


@st.composite
def mesh_case(draw, kinds=("left", "full", "asym"), nx=(2, 4), nyh=(2, 5),
              families=("flat", "planar", "general", "general"), y_offset=True):
    """mesh descriptor + family + reference-axis position"""
    md = draw(S.mesh(kinds=kinds, nx=nx, nyh=nyh))
    fam = draw(st.sampled_from(list(families)))
    sides = [md["side"]] + ([md["right"]] if "right" in md else [])
    if fam == "flat":
        md["root_twist"] = 0.0
        md["noise_amp"] = 0.0
        for s in sides:
            _flatten_side(s)
    elif fam == "planar":
        md["noise_amp"] = 0.0
        for s in sides:
            _planar_side(s, md["root_twist"])
    if "right" in md:
        md["right"]["b"] = md["side"]["b"]  # equal half spans (unequal ones: probe_taper_offset)
    if y_offset and md["kind"] in ("full", "asym"):
        md["root_y"] = draw(st.sampled_from([0.0, 0.0, 0.0, 1.0, -2.5]))
    return dict(mesh=md, family=fam, p=draw(S.fl(0.0, 1.0, 0.25, 0.0, 1.0)))


def dv_values():
    return st.fixed_dictionaries(
        dict(
            taper=S.fl(0.1, 2.0, 1.0, 0.5),
            sweep=S.fl(-45.0, 45.0, 0.0, 20.0),
            dihedral=S.fl(-30.0, 30.0, 0.0, 10.0),
            span_factor=S.fl(0.3, 3.0, 1.0, 1.5),
            chord=_dist(0.2, 3.0, 1.0),
            twist=_dist(-20.0, 20.0, 0.0),
            xshear=_dist(-1.0, 1.0, 0.0),
            yshear=_dist(-1.0, 1.0, 0.0),
            zshear=_dist(-1.0, 1.0, 0.0),
        )
    )


def components_case(**kw):
    return st.fixed_dictionaries(dict(geo=mesh_case(**kw), dv=dv_values()))


def _cp(lo, hi, default):
    @st.composite
    def _c(draw):
        n = draw(st.integers(1, 6))
        if draw(st.sampled_from([False, True, False])):
            v = draw(S.fl(lo, hi, default))
            return [v] * n
        return [draw(S.fl(lo, hi, default)) for _ in range(n)]

    return _c()


GROUP_DVS = ["taper", "chord_cp", "sweep", "xshear_cp", "span", "yshear_cp", "dihedral", "zshear_cp", "twist_cp"]


@st.composite
def group_case(draw, **kw):
    geo = draw(mesh_case(y_offset=False, **kw))
    mode = draw(st.sampled_from(["defaults_all_keys", "drawn", "drawn", "drawn", "defaults_no_keys"]))
    d = dict(geo=geo, mode=mode, set_after=draw(st.booleans()))
    if mode == "drawn":
        act = draw(st.lists(st.sampled_from(GROUP_DVS), min_size=1, max_size=9, unique=True))
        d["active"] = sorted(act, key=GROUP_DVS.index)
    else:
        d["active"] = list(GROUP_DVS) if mode == "defaults_all_keys" else []
    d["vals"] = dict(
        taper=draw(S.fl(0.1, 2.0, 0.5, 1.0)),
        sweep=draw(S.fl(-45.0, 45.0, 20.0, 0.0)),
        dihedral=draw(S.fl(-30.0, 30.0, 10.0, 0.0)),
        span_factor=draw(S.fl(0.3, 3.0, 1.5, 1.0)),
        chord_cp=draw(_cp(0.2, 3.0, 1.0)),
        twist_cp=draw(_cp(-20.0, 20.0, 0.0)),
        xshear_cp=draw(_cp(-1.0, 1.0, 0.0)),
        yshear_cp=draw(_cp(-1.0, 1.0, 0.0)),
        zshear_cp=draw(_cp(-1.0, 1.0, 0.0)),
    )
    d["ncp_default"] = draw(st.integers(1, 6))
    # how the values reach the mesh: through the Geometry group (input defaults taken from the dictionary), through the
    # Geometry group with the documented `<name>_dv: False` switch on the scalar variables (no input default is set: the
    # value the GeometryMesh sub-group took from the dictionary must act), or through GeometryMesh used on its own
    d["entry"] = draw(st.sampled_from(["geometry", "geometry", "geometry_nodv", "mesh_alone"]))
    return d


@st.composite
def splines_case(draw):
    geo = draw(mesh_case(kinds=("left", "full"), families=("flat",), y_offset=False))
    return dict(
        geo=geo,
        model=draw(st.sampled_from(["geometry", "tube", "wingbox"])),
        equal=draw(st.sampled_from([True, False])),
        ncp=draw(st.sampled_from([2, 1, 3, 2, 4, 5, 6])),
        seed=draw(st.integers(0, 10 ** 6)),
        level=draw(S.fl(0.5, 2.0, 1.0)),
    )


@st.composite
def rotate_probe_case(draw):
    """meshes that are inside the class of KF-C13-rotate by construction: dihedral on every non-root segment and chord
    vectors with a z component (built-in root twist; camber for nx > 2)"""
    md = draw(S.mesh(kinds=("left", "full", "asym"), nx=(2, 4), nyh=(2, 5), noise=False))
    sides = [md["side"]] + ([md["right"]] if "right" in md else [])
    sgn = draw(st.sampled_from([1.0, -1.0]))
    md["root_twist"] = draw(st.sampled_from([2.0, -3.0, 4.0]))
    for s in sides:
        s["dihedral"] = sgn * draw(S.fl(3.0, 25.0, 10.0))
        s["twist"] = 0.0
        s["taper"] = 1.0
    if "right" in md:
        md["right"]["b"] = md["side"]["b"]
    return dict(mesh=md, p=draw(S.fl(0.0, 1.0, 0.25, 0.0, 1.0)), twist=draw(S.fl(-20.0, 20.0, 0.0, 0.0, 5.0)),
                level=draw(st.sampled_from(["component", "group"])))


@st.composite
def taper_probe_case(draw):
    md = draw(S.mesh(kinds=("full", "asym"), nx=(2, 3), nyh=(2, 5), noise=False, winglet=False))
    cls = draw(st.sampled_from(["y_offset", "unequal_halfspan", "both"]))
    if "right" in md:
        md["right"]["b"] = md["side"]["b"]
    if cls in ("unequal_halfspan", "both"):
        md["kind"] = "asym"
        md.setdefault("right", copy.deepcopy(md["side"]))
        md["right"]["b"] = md["side"]["b"] * draw(st.sampled_from([0.5, 0.8, 1.6]))
    if cls in ("y_offset", "both"):
        md["root_y"] = draw(st.sampled_from([3.0, -1.5, 0.75]))
    return dict(mesh=md, cls=cls, p=draw(S.fl(0.0, 1.0, 0.25)), taper=draw(S.fl(0.1, 2.0, 0.4)),
                level=draw(st.sampled_from(["component", "group"])))


# ----------------------------------------------------------------------------------------------------------------
# helpers


def _sym(md):
    return md["kind"] == "left"


def _geo(geo):
    md = geo["mesh"]
    m = build_mesh(md)
    sym = _sym(md)
    ny = m.shape[1]
    r = G.root_index(ny, sym)
    return m, sym, float(geo["p"]), r


def _scale(m):
    return float(max(np.ptp(m[:, :, 0]), np.ptp(m[:, :, 1]), np.ptp(m[:, :, 2]), 1e-12))


def _mesh_labels(out, md, m, sym, p):
    out.label("kind=" + md["kind"])
    sides = [md["side"]] + ([md["right"]] if "right" in md else [])
    if md.get("root_y", 0.0) != 0.0:
        out.label("y_offset")
    if md["root_twist"] != 0.0 or any(s["twist"] != 0.0 for s in sides):
        out.label("mesh:pretwisted")
    if any(s["camber"] != 0.0 for s in sides) and md["nx"] > 2:
        out.label("mesh:cambered")
    if any(s["dihedral"] != 0.0 for s in sides):
        out.label("mesh:dihedral")
    if any(s["winglet"] > 0.0 for s in sides):
        out.label("mesh:winglet")
    if md["noise_amp"] > 0.0:
        out.label("mesh:noise")
    if p in (0.0, 0.25, 1.0):
        out.label("ref_axis=%g" % p)
    else:
        out.label("ref_axis=other")


def _stations(m, r):
    return G.eta_from_root(m[0, :, 1], r)


def _yshear_amp(m):
    dy = np.diff(m[0, :, 1])
    return 0.4 * float(np.min(dy))


def _problem_components(m, sym, p, span0):
    import openmdao.api as om
    from openaerostruct.geometry import geometry_mesh_transformations as T

    ny = m.shape[1]
    shp = m.shape
    prob = om.Problem(reports=False)
    ivc = om.IndepVarComp()
    ivc.add_output("in_mesh", val=m, units="m")
    prob.model.add_subsystem("ivc", ivc)
    comps = dict(
        taper=T.Taper(val=1.0, mesh=m, symmetry=sym, ref_axis_pos=p),
        scale_x=T.ScaleX(val=np.ones(ny), mesh_shape=shp, ref_axis_pos=p),
        sweep=T.Sweep(val=0.0, mesh_shape=shp, symmetry=sym),
        shear_x=T.ShearX(val=np.zeros(ny), mesh_shape=shp),
        stretch=T.Stretch(val=span0, mesh_shape=shp, symmetry=sym, ref_axis_pos=p),
        shear_y=T.ShearY(val=np.zeros(ny), mesh_shape=shp),
        dihedral=T.Dihedral(val=0.0, mesh_shape=shp, symmetry=sym),
        shear_z=T.ShearZ(val=np.zeros(ny), mesh_shape=shp),
        rotate=T.Rotate(val=np.zeros(ny), mesh_shape=shp, symmetry=sym, ref_axis_pos=p),
    )
    for n, c in comps.items():
        prob.model.add_subsystem(n, c)
        if n != "taper":
            prob.model.connect("ivc.in_mesh", n + ".in_mesh")
    prob.setup()
    return prob


COMP_INPUT = dict(taper="taper", scale_x="chord", sweep="sweep", shear_x="xshear", stretch="span", shear_y="yshear",
                  dihedral="dihedral", shear_z="zshear", rotate="twist")


def _run(out, prob):
    """run a valid configuration; an exception raised by the model (also from inside OpenMDAO, e.g. SplineComp fed by
    OAS-computed stations) is a violation of 'valid inputs work', not a harness error"""
    import openmdao.api as om

    try:
        prob.run_model()
        return True
    except om.AnalysisError:
        raise
    except Exception as exc:  # noqa: BLE001
        out.fail("crash:%s" % type(exc).__name__, "run_model raised: %s" % str(exc)[:300])
        return False


def _close_mesh(out, key, a, b, scale, rtol=RTOL):
    return out.close(key, a, b, rtol=rtol, scale=scale)


# ----------------------------------------------------------------------------------------------------------------
# sub 1: the nine transformation components, each alone


def verdict_components(desc):
    out = Outcome()
    geo = desc["geo"]
    md = geo["mesh"]
    m, sym, p, r = _geo(geo)
    nx, ny, _ = m.shape
    sc = _scale(m)
    eta = _stations(m, r)
    dv = desc["dv"]
    span0 = G.current_span(m, sym, p)
    y_off = md.get("root_y", 0.0) != 0.0
    _mesh_labels(out, md, m, sym, p)
    out.label("family=" + geo["family"])

    prob = _problem_components(m, sym, p, span0)
    prob.run_model()
    slope, offax, in_rot_class = G.rotate_class(m, sym, p)
    # ---- defaults: every component returns its input
    for n in COMP_INPUT:
        if n == "rotate" and in_rot_class:
            continue
        _close_mesh(out, "noop/" + n, prob.get_val(n + ".mesh"), m, sc, rtol=NOOP_RTOL)

    # ---- drawn values
    chord = G.distribution(dv["chord"], eta)
    twist = G.distribution(dv["twist"], eta)
    c_root = float(np.linalg.norm(m[-1, r] - m[0, r]))
    xs = c_root * G.distribution(dv["xshear"], eta)
    ys = _yshear_amp(m) * G.distribution(dv["yshear"], eta)
    zs = c_root * G.distribution(dv["zshear"], eta)
    span = span0 * dv["span_factor"]
    prob.set_val("taper.taper", dv["taper"])
    prob.set_val("scale_x.chord", chord)
    prob.set_val("sweep.sweep", dv["sweep"])
    prob.set_val("shear_x.xshear", xs)
    prob.set_val("stretch.span", span)
    prob.set_val("shear_y.yshear", ys)
    prob.set_val("dihedral.dihedral", dv["dihedral"])
    prob.set_val("shear_z.zshear", zs)
    prob.set_val("rotate.twist", twist)
    prob.run_model()
    o = {n: prob.get_val(n + ".mesh").copy() for n in COMP_INPUT}
    R0 = G.ref_axis(m, p)

    def refax(a):
        return G.ref_axis(a, p)

    # taper (y-offset full-span surfaces: probe_taper_offset)
    if y_off:
        out.label("excluded:KF-C13-taper-offset")
    else:
        t = o["taper"]
        _close_mesh(out, "taper/mesh", t, G.taper(m, dv["taper"], sym, p), sc)
        _close_mesh(out, "taper/ref_axis_fixed", refax(t), R0, sc)
        c0 = m[-1] - m[0]
        c1 = t[-1] - t[0]
        _close_mesh(out, "taper/root_chord_unchanged", c1[r], c0[r], sc)
        tips = [0] if sym else [0, ny - 1]
        for j in tips:
            _close_mesh(out, "taper/tip_chord_ratio", c1[j], dv["taper"] * c0[j], sc)
    # chord scaling
    s_ = o["scale_x"]
    _close_mesh(out, "chord/x_extent", s_[:, :, 0] - refax(s_)[None, :, 0], (m[:, :, 0] - R0[None, :, 0]) * chord[None, :], sc)
    _close_mesh(out, "chord/ref_axis_fixed", refax(s_), R0, sc)
    _close_mesh(out, "chord/y_unchanged", s_[:, :, 1], m[:, :, 1], sc)
    zrel0 = m[:, :, 2] - R0[None, :, 2]
    zrel1 = s_[:, :, 2] - R0[None, :, 2]
    ez = min(np.max(np.abs(zrel1 - zrel0)), np.max(np.abs(zrel1 - zrel0 * chord[None, :])))
    out.le("chord/z_part", ez, RTOL * sc)
    # sweep
    w = o["sweep"]
    tanL = np.tan(np.radians(dv["sweep"]))
    dist = np.abs(m[0, :, 1] - m[0, r, 1])
    _close_mesh(out, "sweep/dx", w[:, :, 0] - m[:, :, 0], np.broadcast_to(tanL * dist, (nx, ny)), sc)
    _close_mesh(out, "sweep/yz_unchanged", w[:, :, 1:], m[:, :, 1:], sc, rtol=NOOP_RTOL)
    a0 = G.planform_area(m)
    out.le("sweep/area", abs(G.planform_area(w) - a0), RTOL * max(a0, sc * sc))
    if dv["sweep"] != 0.0 and ny > 1:
        tips = [0] if sym else [0, ny - 1]
        out.true("sweep/positive_aft", all(np.sign(w[0, j, 0] - m[0, j, 0]) == np.sign(dv["sweep"]) for j in tips),
                 "positive sweep must move the tips aft (+x)")
    # dihedral
    d_ = o["dihedral"]
    tanG = np.tan(np.radians(dv["dihedral"]))
    _close_mesh(out, "dihedral/dz", d_[:, :, 2] - m[:, :, 2], np.broadcast_to(tanG * dist, (nx, ny)), sc)
    _close_mesh(out, "dihedral/xy_unchanged", d_[:, :, :2], m[:, :, :2], sc, rtol=NOOP_RTOL)
    if dv["dihedral"] != 0.0:
        tips = [0] if sym else [0, ny - 1]
        out.true("dihedral/positive_up", all(np.sign(d_[0, j, 2] - m[0, j, 2]) == np.sign(dv["dihedral"]) for j in tips),
                 "positive dihedral must raise the tips")
    # shears
    for n, ax, vec in (("shear_x", 0, xs), ("shear_y", 1, ys), ("shear_z", 2, zs)):
        _close_mesh(out, "shear/" + n, o[n], G.shear(m, vec, ax), sc)
    # span
    s2 = o["stretch"]
    R2 = refax(s2)
    ext = (R2[-1, 1] - R2[0, 1]) * (2.0 if sym else 1.0)
    out.le("span/extent", abs(ext - span), RTOL * max(span, sc))
    _close_mesh(out, "span/xz_unchanged", s2[:, :, [0, 2]], m[:, :, [0, 2]], sc, rtol=NOOP_RTOL)
    ref_s = G.stretch(m, span, sym, p)
    _close_mesh(out, "span/stations_relative_to_root", s2[:, :, 1] - s2[0, r, 1], ref_s[:, :, 1] - ref_s[0, r, 1], max(sc, span))
    if not y_off:
        _close_mesh(out, "span/mesh", s2, ref_s, max(sc, span))
    # twist
    if in_rot_class:
        out.label("excluded:KF-C13-rotate")
    else:
        t_ = o["rotate"]
        _close_mesh(out, "twist/mesh", t_, G.rotate(m, twist, sym, p), sc)
        _close_mesh(out, "twist/ref_axis_fixed", refax(t_), R0, sc)
        v0 = m - R0[None]
        v1 = t_ - R0[None]
        _close_mesh(out, "twist/length_preserved", np.linalg.norm(v1, axis=2), np.linalg.norm(v0, axis=2), sc)
        c0 = m[-1] - m[0]
        c1 = t_[-1] - t_[0]
        l0 = np.linalg.norm(c0, axis=1)
        cosang = np.sum(c0 * c1, axis=1) / (l0 * l0)
        # turned by exactly the angle (compare cosines and the sine through the cross product: well conditioned together)
        out.le("twist/angle_cos", np.max(np.abs(cosang - np.cos(np.radians(twist)))), 1e-9)
        sinang = np.linalg.norm(np.cross(c0, c1), axis=1) / (l0 * l0)
        out.le("twist/angle_sin", np.max(np.abs(sinang - np.abs(np.sin(np.radians(twist))))), 1e-9)
        if 0.0 < p:
            up = (t_[0, :, 2] - m[0, :, 2]) * np.sign(twist)
            chordwise = np.abs(v0[0, :, 0])
            ok = np.all(up[(np.abs(twist) > 1e-3) & (chordwise > 1e-9)] > 0)
            # holds when the leading edge is ahead of the reference axis and the chord is near the x direction
            flat = np.max(np.abs(v0[:, :, 1:])) < 1e-12
            if flat:
                out.true("twist/leading_edge_up", ok, "positive twist must raise the leading edge")
    ndiff = sum(
        [dv["taper"] != 1.0, dv["sweep"] != 0.0, dv["dihedral"] != 0.0, dv["span_factor"] != 1.0,
         bool(np.any(chord != 1.0)), bool(np.any(twist != 0.0)), bool(np.any(xs != 0.0)), bool(np.any(ys != 0.0)),
         bool(np.any(zs != 0.0))]
    )
    out.nontrivial = bool(ny >= 3 and ndiff >= 5)
    return out


# ----------------------------------------------------------------------------------------------------------------
# sub 2: Geometry group


def _surface(name, m, sym, p, **kw):
    s = {"name": name, "symmetry": bool(sym), "S_ref_type": "wetted", "mesh": np.array(m, float), "ref_axis_pos": p,
         "CL0": 0.0, "CD0": 0.0, "k_lam": 0.05, "c_max_t": 0.303, "with_viscous": False, "with_wave": False}
    s.update(kw)
    return s


def _geometry_problem(surface):
    import openmdao.api as om
    from openaerostruct.geometry.geometry_group import Geometry

    prob = om.Problem(reports=False)
    prob.model.add_subsystem("g", Geometry(surface=surface))
    prob.setup()
    return prob


CP_DEFAULT = dict(chord_cp=1.0, twist_cp=0.0, xshear_cp=0.0, yshear_cp=0.0, zshear_cp=0.0)
DIST_OF = dict(chord_cp="chord", twist_cp="twist", xshear_cp="xshear", yshear_cp="yshear", zshear_cp="zshear")


def _xi(m, nodal):
    y = m[0, :, 1]
    x = (y - y[0]) / (y[-1] - y[0])
    return x if nodal else 0.5 * (x[:-1] + x[1:])


def check_spline(out, name, cp, val, nodal, m=None):
    """documented facts about a spline output: equal control points -> constant; first/last control point reproduced at
    the first/last station (array convention [tip ... root] / [tip ... root ... tip]); values inside the cp range; two
    control points = a straight line over the normalised span (nodes, or panel mid points for per-panel quantities)"""
    cp = np.asarray(cp, float)
    val = np.asarray(val, float).ravel()
    s = max(float(np.max(np.abs(cp))), 1e-3)
    if np.all(cp == cp[0]):
        out.close("spline/constant/" + name, val, np.full(val.shape, cp[0]), rtol=1e-12, scale=s)
        return
    lo, hi = cp.min(), cp.max()
    out.le("spline/range/" + name, max(0.0, float(np.max(val) - hi), float(lo - np.min(val))), 1e-12 * s)
    if nodal:
        out.close("spline/ends/" + name, [val[0], val[-1]], [cp[0], cp[-1]], rtol=1e-12, scale=s)
    if len(cp) == 2 and m is not None:
        out.close("spline/linear_2cp/" + name, val, cp[0] + (cp[1] - cp[0]) * _xi(m, nodal), rtol=1e-12, scale=s)


def verdict_group(desc):
    out = Outcome()
    geo = desc["geo"]
    md = geo["mesh"]
    m, sym, p, r = _geo(geo)
    nx, ny, _ = m.shape
    sc = _scale(m)
    _mesh_labels(out, md, m, sym, p)
    out.label("family=" + geo["family"], "mode=" + desc["mode"])
    span0 = G.current_span(m, sym, p)
    c_root = float(np.linalg.norm(m[-1, r] - m[0, r]))
    act = list(desc["active"])
    drawn = desc["mode"] == "drawn"
    v = desc["vals"]
    # target values (physical units) of the active design variables
    target = {}
    for k in act:
        if k in ("taper", "sweep", "dihedral"):
            target[k] = float(v[k]) if drawn else DV_DEFAULT[k]
        elif k == "span":
            target[k] = span0 * (float(v["span_factor"]) if drawn else 1.0)
        else:
            if drawn:
                cp = np.array(v[k], float)
                if k in ("xshear_cp", "zshear_cp"):
                    cp = cp * c_root
                elif k == "yshear_cp":
                    # spanwise ordering must survive: the amplitude follows the station spacing AFTER the span change
                    # that precedes the y-shear in the chain
                    cp = cp * _yshear_amp(m) * (min(1.0, float(v["span_factor"])) if "span" in act else 1.0)
            else:
                cp = np.full(int(desc["ncp_default"]), CP_DEFAULT[k])
            target[k] = cp
    # surface dictionary: either carries the values, or defaults that are overwritten after setup
    after = bool(desc["set_after"]) and drawn
    kw = {}
    for k in act:
        if after:
            if k in DV_DEFAULT:
                kw[k] = DV_DEFAULT[k]
            elif k == "span":
                kw[k] = span0
            else:
                kw[k] = np.full(len(target[k]), CP_DEFAULT[k])
        else:
            kw[k] = target[k]
    entry = desc.get("entry", "geometry")
    out.label("entry=" + entry)
    scalars = [k for k in act if k in ("taper", "sweep", "span", "dihedral")]
    if entry == "geometry_nodv":
        for k in scalars:
            kw[k + "_dv"] = False
    surf = _surface("w", m, sym, p, **kw)
    dist = {}
    if entry == "mesh_alone":
        import openmdao.api as om
        from openaerostruct.geometry.geometry_mesh import GeometryMesh

        prob = om.Problem(reports=False)
        prob.model.add_subsystem("g", GeometryMesh(surface=surf))
        prob.setup()
        # nodal distributions are the inputs of this group: any nodal array is admissible; use the control points
        # interpolated linearly over the normalised span
        xi = _xi(m, True)
        for k in act:
            if k in DIST_OF:
                cp = np.asarray(target[k], float)
                dist[k] = np.full(ny, cp[0]) if len(cp) == 1 else np.interp(xi, np.linspace(0.0, 1.0, len(cp)), cp)
                prob.set_val("g." + DIST_OF[k], dist[k])
        if after:
            out.label("values_set_after_setup")
            for k in scalars:
                prob.set_val("g." + k, target[k])
        elif drawn:
            out.label("values_from_dict")
        if not _run(out, prob):
            return out
        mesh = prob.get_val("g.mesh").copy()
        pre = prob.get_val("g.shear_z.mesh").copy()
    else:
        prob = _geometry_problem(surf)
        if after:
            out.label("values_set_after_setup")
            for k in act:
                prob.set_val("g." + k, target[k])
        elif drawn:
            out.label("values_from_dict")
        if not _run(out, prob):
            return out
        mesh = prob.get_val("g.mesh").copy()
        pre = prob.get_val("g.mesh.shear_z.mesh").copy()

        # spline outputs, fed to the reference chain
        for k in act:
            if k in DIST_OF:
                dist[k] = prob.get_val("g." + DIST_OF[k]).ravel().copy()
                check_spline(out, DIST_OF[k], target[k], dist[k], nodal=True, m=m)
                out.label("ncp=%d" % len(target[k]))
    args = dict(
        taper_=target.get("taper", 1.0), chord=dist.get("chord_cp"), sweep_=target.get("sweep", 0.0),
        xshear=dist.get("xshear_cp"), span=target.get("span"), yshear=dist.get("yshear_cp"),
        dihedral_=target.get("dihedral", 0.0), zshear=dist.get("zshear_cp"), twist=dist.get("twist_cp"),
    )
    ref_pre = G.chain(m, sym, p, upto=8, **args)
    sc2 = max(sc, _scale(ref_pre))
    _, _, in_rot_class = G.rotate_class(ref_pre, sym, p)
    rt = RTOL if drawn else NOOP_RTOL
    pref = "chain" if drawn else "noop"
    _close_mesh(out, pref + "/before_twist", pre, ref_pre, sc2, rtol=rt)
    if in_rot_class:
        out.label("excluded:KF-C13-rotate")
    else:
        ref = G.chain(m, sym, p, upto=9, **args)
        _close_mesh(out, pref + "/mesh", mesh, ref, sc2, rtol=rt)
        if not drawn:
            _close_mesh(out, "noop/mesh_equals_input", mesh, m, sc, rtol=NOOP_RTOL)
        if "span" in act and "yshear_cp" not in act:
            R2 = G.ref_axis(mesh, p)
            ext = (R2[-1, 1] - R2[0, 1]) * (2.0 if sym else 1.0)
            out.le("span/extent", abs(ext - target["span"]), RTOL * max(target["span"], sc))
        if act == ["sweep"]:
            a0 = G.planform_area(m)
            out.le("sweep/area", abs(G.planform_area(mesh) - a0), RTOL * max(a0, sc * sc))
            _close_mesh(out, "sweep/yz_unchanged", mesh[:, :, 1:], m[:, :, 1:], sc, rtol=NOOP_RTOL)
    for k in act:
        out.label("dv=" + k)
    if len(act) == 1:
        out.label("single_dv")
    out.nontrivial = bool(ny >= 3 and ((not drawn) or float(np.max(np.abs(pre - m))) > 1e-6 * sc))
    return out


# ----------------------------------------------------------------------------------------------------------------
# sub 3: spline distributions of the geometry and structural groups


def verdict_splines(desc):
    import openmdao.api as om
    from oasv.models import struct_surface

    out = Outcome()
    geo = desc["geo"]
    m, sym, p, r = _geo(geo)
    ncp = int(desc["ncp"])
    rng = np.random.default_rng(int(desc["seed"]))
    lvl = float(desc["level"])

    def cp(base, spread):
        if desc["equal"]:
            return np.full(ncp, base * lvl)
        return base * lvl * (1.0 + spread * rng.uniform(-1.0, 1.0, ncp))

    out.label("model=" + desc["model"], "equal_cp" if desc["equal"] else "unequal_cp", "ncp=%d" % ncp,
              "kind=" + geo["mesh"]["kind"])
    if desc["model"] == "geometry":
        cps = dict(twist_cp=cp(3.0, 1.0), chord_cp=cp(1.0, 0.5), xshear_cp=cp(0.3, 1.0), yshear_cp=cp(0.01, 1.0),
                   zshear_cp=cp(0.2, 1.0), t_over_c_cp=cp(0.12, 0.3))
        prob = _geometry_problem(_surface("w", m, sym, p, **cps))
        if not _run(out, prob):
            return out
        for k, c in cps.items():
            nm = k[:-3]
            check_spline(out, nm, c, prob.get_val("g." + nm), nodal=(k != "t_over_c_cp"), m=m)
    elif desc["model"] == "tube":
        from openaerostruct.structures.tube_group import TubeGroup

        cps = dict(thickness_cp=cp(0.01, 0.5), radius_cp=cp(0.1, 0.5))
        s = struct_surface("w", m, sym, model="tube", ncp=ncp, **cps)
        prob = om.Problem(reports=False)
        prob.model.add_subsystem("g", TubeGroup(surface=s))
        prob.setup()
        if not _run(out, prob):
            return out
        for k, c in cps.items():
            check_spline(out, k[:-3], c, prob.get_val("g." + k[:-3]), nodal=False, m=m)
    else:
        from openaerostruct.structures.wingbox_group import WingboxGroup

        cps = dict(spar_thickness_cp=cp(0.006, 0.5), skin_thickness_cp=cp(0.01, 0.5))
        s = struct_surface("w", m, sym, model="wingbox", ncp=ncp, **cps)
        prob = om.Problem(reports=False)
        prob.model.add_subsystem("g", WingboxGroup(surface=s))
        prob.setup()
        prob.set_val("g.mesh", m)
        if not _run(out, prob):
            return out
        for k, c in cps.items():
            check_spline(out, k[:-3], c, prob.get_val("g." + k[:-3]), nodal=False, m=m)
    out.nontrivial = bool(m.shape[1] >= 3)
    return out


# ----------------------------------------------------------------------------------------------------------------
# probes


def verdict_probe_rotate(desc):
    """class: reference-axis z-slope and chord vectors with a z component.  Expected: zero twist is a no-op and a twist
    turns the section about the dihedral-following span direction.  The pinned tree applies Rx(dihedral).Ry(twist) to the
    chord vector instead (KF-C13-rotate)."""
    import openmdao.api as om
    from openaerostruct.geometry.geometry_mesh_transformations import Rotate

    out = Outcome()
    md = desc["mesh"]
    m = build_mesh(md)
    sym = _sym(md)
    p = float(desc["p"])
    ny = m.shape[1]
    sc = _scale(m)
    tw = np.full(ny, float(desc["twist"]))
    _, _, in_class = G.rotate_class(m, sym, p)
    if not in_class:
        raise AssertionError("generator failed to construct the class")
    out.label("kind=" + md["kind"], "level=" + desc["level"], "twist=0" if desc["twist"] == 0.0 else "twist!=0")
    if desc["level"] == "component":
        prob = om.Problem(reports=False)
        prob.model.add_subsystem("c", Rotate(val=tw, mesh_shape=m.shape, symmetry=sym, ref_axis_pos=p))
        prob.setup()
        prob.set_val("c.in_mesh", m)
        prob.run_model()
        got = prob.get_val("c.mesh").copy()
    else:
        keys = dict(taper=1.0, sweep=0.0, dihedral=0.0, span=G.current_span(m, sym, p), twist_cp=tw[:1].repeat(2),
                    chord_cp=np.ones(2), xshear_cp=np.zeros(2), yshear_cp=np.zeros(2), zshear_cp=np.zeros(2))
        prob = _geometry_problem(_surface("w", m, sym, p, **keys))
        if not _run(out, prob):
            return out
        got = prob.get_val("g.mesh").copy()
    want = G.rotate(m, tw, sym, p)
    err = float(np.max(np.abs(got - want)))
    tol = RTOL * sc
    out._resid("rotate_class", min(err, tol), tol)
    if err > tol:
        sig = G.rotate_premultiplied(m, tw, sym, p)
        if float(np.max(np.abs(got - sig))) <= tol:
            out.fail("KF-C13-rotate", "zero/any twist applies Rx(dihedral) to non-x chord vectors: max deviation %.3e m "
                     "(mesh extent %.2f)" % (err, sc), err, tol)
        else:
            out.fail("rotate_class/other", "neither the documented rotation nor the known signature: err %.3e" % err, err, tol)
    out.nontrivial = True
    return out


def verdict_probe_taper(desc):
    """class: full-span surface whose root is not at y=0 midway between the tips.  Expected: 1 at the root, ratio at
    both tips, linear in spanwise distance from the root.  The pinned tree interpolates on absolute y with break points
    (-span/2, 0, span/2) (KF-C13-taper-offset)."""
    import openmdao.api as om
    from openaerostruct.geometry.geometry_mesh_transformations import Taper

    out = Outcome()
    md = desc["mesh"]
    m = build_mesh(md)
    p = float(desc["p"])
    lam = float(desc["taper"])
    sc = _scale(m)
    out.label("class=" + desc["cls"], "level=" + desc["level"], "kind=" + md["kind"])
    if desc["level"] == "component":
        prob = om.Problem(reports=False)
        prob.model.add_subsystem("c", Taper(val=lam, mesh=m, symmetry=False, ref_axis_pos=p))
        prob.setup()
        prob.run_model()
        got = prob.get_val("c.mesh").copy()
    else:
        prob = _geometry_problem(_surface("w", m, False, p, taper=lam))
        prob.run_model()
        got = prob.get_val("g.mesh.taper.mesh").copy()
    want = G.taper(m, lam, False, p)
    err = float(np.max(np.abs(got - want)))
    tol = RTOL * sc
    out._resid("taper_class", min(err, tol), tol)
    if err > tol:
        R = G.ref_axis(m, p)
        span = R[-1, 1] - R[0, 1]
        match = False
        # symmetric break points (-span/2, 0, span/2) about y = 0 (pinned tree) or about the root's y (root-shifted variant)
        for y0 in (0.0, R[G.root_index(m.shape[1], False), 1]):
            f = np.interp(R[:, 1] - y0, [-span / 2, 0.0, span / 2], [lam, 1.0, lam])
            sig = R[None] + (m - R[None]) * f[None, :, None]
            match = match or float(np.max(np.abs(got - sig))) <= tol
        if match:
            c = (got[-1, :, 0] - got[0, :, 0]) / (m[-1, :, 0] - m[0, :, 0])
            out.fail("KF-C13-taper-offset", "taper factor follows absolute y, not distance from the root: chord factors %s, "
                     "expected 1 at the root and %.3g at both tips" % (np.round(c, 4).tolist(), lam), err, tol)
        else:
            out.fail("taper_class/other", "neither the documented taper nor the known signature: err %.3e" % err, err, tol)
    out.nontrivial = bool(lam != 1.0)
    return out


_MD = copy.deepcopy(MESH_DEFAULT)
_MD["side"] = dict(SIDE_DEFAULT)
_DIST0 = dict(kind="const", seed=0)
_GEO_DEFAULT = dict(mesh=_MD, family="flat", p=0.25)
DEFAULTS_COMPONENTS = dict(
    geo=_GEO_DEFAULT,
    dv=dict(taper=1.0, sweep=0.0, dihedral=0.0, span_factor=1.0, chord=dict(_DIST0, a=1.0, b=1.0),
            twist=dict(_DIST0, a=0.0, b=0.0), xshear=dict(_DIST0, a=0.0, b=0.0), yshear=dict(_DIST0, a=0.0, b=0.0),
            zshear=dict(_DIST0, a=0.0, b=0.0)),
)
DEFAULTS_GROUP = dict(geo=_GEO_DEFAULT, set_after=False, vals=dict(taper=1.0, sweep=0.0, dihedral=0.0, span_factor=1.0))

SUBS = [
    Sub("components", components_case(), verdict_components, quick=1600, thorough=40000, defaults=DEFAULTS_COMPONENTS),
    Sub("geometry_group", group_case(), verdict_group, quick=2400, thorough=60000, defaults=DEFAULTS_GROUP),
    Sub("components_fine", components_case(nx=(3, 7), nyh=(5, 11)), verdict_components, quick=160, thorough=6000,
        defaults=DEFAULTS_COMPONENTS),
    Sub("geometry_group_fine", group_case(nx=(3, 7), nyh=(5, 11)), verdict_group, quick=240, thorough=9000,
        defaults=DEFAULTS_GROUP),
    Sub("splines", splines_case(), verdict_splines, quick=480, thorough=10000),
    Sub("probe_rotate", rotate_probe_case(), verdict_probe_rotate, quick=160, thorough=3000),
    Sub("probe_taper_offset", taper_probe_case(), verdict_probe_taper, quick=160, thorough=3000),
]
