"""C10  Structural displacements satisfy beam equilibrium with a clamped root (DESIGN.md section 4, C10)."""
import numpy as np
from hypothesis import strategies as st

from oasv import beams as B
from oasv import strategies as S
from oasv.core import Outcome, Sub

RULE = (
    "Layer (a): Hypothesis draws a beam polyline (half model clamped at the last node / full span clamped at the centre "
    "node; ny 2-9; 'wing' layouts with sweep, dihedral and per-element kinks, and 'general' layouts with arbitrary "
    "element directions whose angle to the x axis is >= 5 deg, first element exactly on the drawn bound), element "
    "properties A, Iy, Iz, J (base values over 3-3.5 decades times a per-element spread of up to +-1.5 decades), E, G/E "
    "and nodal loads (6 per node, each exactly 0 or 1e-3..1e7 in magnitude) and feeds AssembleKGroup+SpatialBeamStates "
    "directly.  Oracles: independent force-method integration of the statically determinate clamped polyline and "
    "independent stiffness assembly (oasv/ref_frame.py), component-wise backward error of K_ref u = f on the free "
    "dofs, u_root = 0, linearity u(a f1 + b f2) = a u1 + b u2, Maxwell-Betti f1.u2 = f2.u1, textbook cantilever "
    "formulas at every node of straight uniform beams (non-uniform node spacing, load at any node, full-span = two "
    "arms), tube (Iy = Iz): rotating nodes and loads rotates the response.  Layer (b): SpatialBeamAlone (tube / "
    "wingbox; left-half symmetric, full-span symmetric and asymmetric meshes from oasv/meshes.py) with the group's own "
    "nodes / A / Iy / Iz / J outputs fed to the same reference.  non-trivial = some load on a non-clamped node and "
    "max|u| > 0; distinct = descriptor digest."
)
ASSUMPTIONS = [
    "forward tolerance max(1e-7, 100 eps cond) relative to max|translation| (translations) and max|rotation| (rotations) of "
    "the case (a block is never judged finer than the other block's size converted with the extent of the beam), cond = 2-norm condition number of the reference's diagonally scaled free-free stiffness matrix; measured on "
    "the unchanged tree: error <= 1.2 eps cond (the force-method reference involves no linear solve, so the whole error "
    "is the code's sparse LU); cases with cond > 1e7 are labelled",
    "equilibrium is judged by the conditioning-independent component-wise backward error of K_ref u = f, <= 1e-7, with "
    "the row floor K_ii * tol * max|u| (see ref_frame.equilibrium_backward_error)",
    "reciprocity tolerance: forward tolerance * sum over blocks of (sum|f1| max|u2| + sum|f2| max|u1|)",
    "element directions at least 5 deg away from the x axis (the local triad uses e_x as reference vector)",
    "every generated load entry is exactly 0 or >= 1e-3 N in magnitude; f1 and f2 of the linearity check share their sign "
    "pattern and a, b have equal signs, so no entry of a f1 + b f2 can fall below the 1e-6 N zeroing threshold",
    "local triad convention x = element direction, y = x cross e_x, z = x cross y; Iz <-> bending in the local x-y plane",
    "half models are generated with the symmetry-plane node last (left half, the only ordering the structural groups "
    "support); the right-half ordering is routed to the probe sub-check right_half_clamp_probe",
]

TOL = 1e-7
EPS = 2.220446049250313e-16


def _ftol(kappa, n_solves=1):
    """forward tolerance: 1e-7, or 100 eps cond for ill-conditioned cases (measured: error <= 1.2 eps cond)"""
    return max(TOL, 100.0 * EPS * kappa * n_solves)


def _blocks_close(out, key, u, ref, tol=TOL, scale_from=None, lchar=None, floor=None):
    """translations and rotations are judged separately.  A block that is (theoretically) zero carries round-off of
    the other block's size: translations are never judged finer than tol * max|rotation| * lchar and rotations never
    finer than tol * max|translation| / lchar (lchar = extent of the beam)."""
    sf = ref if scale_from is None else scale_from
    st_ = float(np.max(np.abs(sf[:, :3])))
    sr_ = float(np.max(np.abs(sf[:, 3:])))
    if lchar:
        st_, sr_ = max(st_, sr_ * lchar), max(sr_, st_ / lchar)
    for nm, blk, sc in (("trans", slice(0, 3), st_), ("rot", slice(3, 6), sr_)):
        if sc == 0.0:
            sc = float(np.max(np.abs(sf))) or 1.0
        # floor = (translation, rotation) response to round-off of the loads (RF.roundoff_floor): nothing finer is resolvable
        out.close("%s_%s" % (key, nm), u[:, blk], ref[:, blk], rtol=tol, scale=sc,
                  atol=0.0 if floor is None else float(floor[0 if nm == "trans" else 1]))


def _extent(nodes):
    return float(np.max(np.linalg.norm(nodes - nodes.mean(axis=0), axis=1))) * 2.0


# ----------------------------------------------------------------------------------------------------------------
# layer (a): direct


def direct_config(nel=(1, 8)):
    return st.fixed_dictionaries(
        dict(
            beam=B.beam(nel=nel),
            section=B.section(),
            loads=B.loads(),
            a=S.fl(0.25, 4.0, 1.0),
            b=S.fl(0.25, 4.0, 1.0),
            neg=st.booleans(),
        )
    )


def _case(desc):
    from oasv import ref_frame as RF

    bd, sd, ld = desc["beam"], desc["section"], desc["loads"]
    nodes = B.polyline(bd)
    ny = nodes.shape[0]
    assert RF.min_angle_to_x(nodes) >= B.MIN_ANGLE - 1e-7, "generator post-condition: element within 5 deg of x axis"
    A, Iy, Iz, J = B.section_props(sd, ny - 1)
    E, G = B.material(sd)
    sym = bd["kind"] == "sym"
    root = RF.root_index(ny, sym)
    return nodes, ny, A, Iy, Iz, J, E, G, sym, root


def verdict_direct(desc):
    from oasv import ref_frame as RF

    out = Outcome()
    nodes, ny, A, Iy, Iz, J, E, G, sym, root = _case(desc)
    ld = desc["loads"]
    f1 = B.nodal_loads(ld, ny, 0, root=root)
    f2 = B.nodal_loads(ld, ny, 1, root=root)
    f2 = np.where(f1 != 0.0, np.abs(f2) * np.sign(f1), f2)
    sg = -1.0 if desc["neg"] else 1.0
    a, b = sg * desc["a"], sg * desc["b"]
    f3 = a * f1 + b * f2
    p = B.beam_problem(nodes, A, Iy, Iz, J, E, G, sym)
    u1 = B.solve_loads(p, f1)
    u2 = B.solve_loads(p, f2)
    u3 = B.solve_loads(p, f3)
    uf = RF.solve_flexibility(nodes, A, Iy, Iz, J, E, G, f1, root)
    us = RF.solve_stiffness(nodes, A, Iy, Iz, J, E, G, f1, root)
    kappa = RF.scaled_condition(nodes, A, Iy, Iz, J, E, G, root)
    ftol = _ftol(kappa)
    lc = _extent(nodes)
    free_loaded = bool(np.any(np.delete(f1, root, axis=0) != 0.0))
    # 1 reference models (two independent methods)
    if free_loaded:
        fl1 = RF.roundoff_floor(nodes, A, Iy, Iz, J, E, G, f1, root)
        _blocks_close(out, "ref_force_method/disp", u1, uf, ftol, lchar=lc, floor=fl1)
        _blocks_close(out, "ref_stiffness/disp", u1, us, 2 * ftol, scale_from=uf, lchar=lc, floor=fl1)
    # 2 equilibrium invariant with the reference's K and the displacements under test; clamp
    if free_loaded:
        # (component-wise backward error: 1e-7, or eps x condition number - of the diagonally scaled matrix x 10, of the matrix
        # as it stands x 1 - when the bending stiffness EI/L is ten and more decades below the axial stiffness EA/L (tiny
        # spars) and an elimination without equilibration mixes the two scales; observed 1.07e-7 at cond 1e10)
        out.le("equilibrium", RF.equilibrium_backward_error(nodes, A, Iy, Iz, J, E, G, f1, root, u1), max(TOL, 10.0 * EPS * kappa, EPS * RF.unscaled_condition(nodes, A, Iy, Iz, J, E, G, root)))
    umax = float(np.max(np.abs(uf))) or 1.0
    out.le("root_clamped", float(np.max(np.abs(u1[root]))), 1e-12 * umax)
    # 3 linearity, reciprocity
    _blocks_close(out, "linearity", u3, a * u1 + b * u2, 3 * ftol, lchar=lc,
                  floor=RF.roundoff_floor(nodes, A, Iy, Iz, J, E, G, np.abs(f3) + abs(a) * np.abs(f1) + abs(b) * np.abs(f2), root))
    if free_loaded:
        w12 = float(np.sum(f1 * u2))
        w21 = float(np.sum(f2 * u1))
        sc = 0.0
        for blk in (slice(0, 3), slice(3, 6)):
            sc += float(np.sum(np.abs(f1[:, blk]))) * float(np.max(np.abs(u2[:, blk])))
            sc += float(np.sum(np.abs(f2[:, blk]))) * float(np.max(np.abs(u1[:, blk])))
        out.le("maxwell_betti", abs(w12 - w21), ftol * sc)

    bd = desc["beam"]
    out.label("kind=" + bd["kind"], "layout=" + bd["layout"], "ny=%d" % ny if ny <= 3 else "ny>3")
    if desc["section"]["tube"]:
        out.label("Iy=Iz")
    if desc["section"]["spread"] > 0:
        out.label("varying_section")
    if ld["scale_exp"] < -1.0:
        out.label("small_loads")
    if desc["neg"]:
        out.label("negative_combination")
    if bd["layout"] == "general" and bd["psi_min"] == 5.0:
        out.label("on_5deg_bound")
    if bd["kind"] == "full" and not bd["mirror"]:
        out.label("asymmetric_full")
    if kappa > 1e7:
        out.label("ill_conditioned(cond>1e7)")
    out.nontrivial = bool(free_loaded and np.max(np.abs(u1)) > 0)
    return out


# ----------------------------------------------------------------------------------------------------------------
# closed-form cantilevers


def cantilever_config():
    return st.fixed_dictionaries(
        dict(
            kind=st.sampled_from(["sym", "full"]),
            nel=st.integers(1, 6),
            psi=S.fl(5.0, 175.0, 90.0),  # angle of the beam axis to the x axis
            phi=S.fl(0.0, 360.0, 0.0),  # azimuth about the x axis (0 = +y)
            L=S.fl(0.3, 20.0, 5.0),
            L2=S.fl(0.3, 20.0, 5.0),
            spacing_seed=st.integers(0, 10 ** 6),
            spacing=S.fl(0.0, 1.0, 0.0),
            section=B.section(),
            load_node=S.fl(0.0, 1.0, 0.0),
            P=st.lists(st.one_of(st.just(0.0), S.logfl(-3.0, 5.0, 1000.0)), min_size=3, max_size=3),
            M=st.lists(st.one_of(st.just(0.0), S.logfl(-3.0, 5.0, 1000.0)), min_size=3, max_size=3),
            signs=st.lists(st.sampled_from([1.0, -1.0]), min_size=6, max_size=6),
            pure=st.sampled_from(["mixed", "mixed", "mixed", "Px", "Py", "Pz", "Mx", "My", "Mz"]),
            origin=st.lists(S.fl(-3.0, 3.0, 0.0), min_size=3, max_size=3),
        )
    )


def _stations(n_el, L, rng, spacing):
    w = 10.0 ** (spacing * rng.uniform(-0.7, 0.7, n_el))
    s = np.concatenate([[0.0], np.cumsum(w)])
    return s / s[-1] * L


def verdict_cantilever(desc):
    from oasv import ref_frame as RF

    out = Outcome()
    sd = desc["section"]
    E, G = B.material(sd)
    A1, Iy1, Iz1, J1 = 10.0 ** sd["eA"], 10.0 ** sd["eIy"], 10.0 ** sd["eIz"], 10.0 ** sd["eJ"]
    if sd["tube"]:
        Iz1 = Iy1
    psi, phi = np.radians(desc["psi"]), np.radians(desc["phi"])
    d = np.array([np.cos(psi), np.sin(psi) * np.cos(phi), np.sin(psi) * np.sin(phi)])
    assert RF.angle_to_x_deg(d) >= 5.0 - 1e-7
    rng = np.random.default_rng(desc["spacing_seed"])
    nel = desc["nel"]
    o = np.array(desc["origin"], float)
    full = desc["kind"] == "full"
    # node order: (tip of arm A) ... clamp [... tip of arm B]; every element points along +d
    sA = _stations(nel, desc["L"], rng, desc["spacing"])  # distances from the clamp, arm A (direction -d)
    nodes = [o - s * d for s in sA[::-1]]
    arms = [("A", -1.0, sA, list(range(nel, -1, -1)))]  # node index of station k of arm A = nel - k
    if full:
        sB = _stations(nel, desc["L2"], rng, desc["spacing"])
        nodes += [o + s * d for s in sB[1:]]
        arms.append(("B", 1.0, sB, list(range(nel, 2 * nel + 1))))
    nodes = np.array(nodes)
    ny = nodes.shape[0]
    root = RF.root_index(ny, not full)
    assert root == nel
    R = RF.triad(d)  # triad of every element (all run along +d)
    P = np.array(desc["P"]) * np.array(desc["signs"][:3])
    M = np.array(desc["M"]) * np.array(desc["signs"][3:])
    if desc.get("pure", "mixed") != "mixed":
        # textbook single-load cases: tip force in one local direction / torque / end moment
        k = ["Px", "Py", "Pz", "Mx", "My", "Mz"].index(desc["pure"])
        v = np.concatenate([P, M])
        keep = v[k] if v[k] != 0.0 else 1000.0
        v[:] = 0.0
        v[k] = keep
        P, M = v[:3], v[3:]
    loads = np.zeros((ny, 6))
    for name, sgn, st_, idx in arms:
        k = 1 + int(round(desc["load_node"] * (nel - 1)))  # loaded station 1..nel
        k = nel + 1 - k if name == "A" else k  # default load_node=0 -> tip of arm A
        k = min(max(k, 1), nel)
        # local frame whose x axis points away from the clamp, same section axes: (x, y, z) or (-x, y, -z)
        Rl = R * np.array([sgn, 1.0, sgn])[:, None]
        Pl, Ml = (P, M) if name == "A" else (M[::-1] * 0.7, P[::-1] * 1.3)  # different load on the second arm
        loads[idx[k], :3] = Rl.T @ Pl
        loads[idx[k], 3:] = Rl.T @ Ml
    # generator post-condition: global load components are exactly 0 or well above the 1e-6 N zeroing threshold
    loads[np.abs(loads) < 1e-4] = 0.0
    # expectation from the loads actually applied (textbook formulas in the arm's local frame, superposed)
    expected = np.zeros((ny, 6))
    for name, sgn, st_, idx in arms:
        Rl = R * np.array([sgn, 1.0, sgn])[:, None]
        for k0 in range(1, nel + 1):
            if not np.any(loads[idx[k0]] != 0):
                continue
            Pl, Ml = Rl @ loads[idx[k0], :3], Rl @ loads[idx[k0], 3:]
            for kk in range(nel + 1):
                c = RF.cantilever_closed_form(st_[kk], st_[k0], E * A1, G * J1, E * Iy1, E * Iz1, Pl, Ml)
                expected[idx[kk], :3] += Rl.T @ c[:3]
                expected[idx[kk], 3:] += Rl.T @ c[3:]
    n1 = ny - 1
    p = B.beam_problem(nodes, [A1] * n1, [Iy1] * n1, [Iz1] * n1, [J1] * n1, E, G, not full)
    u = B.solve_loads(p, loads)
    kappa = RF.scaled_condition(nodes, [A1] * n1, [Iy1] * n1, [Iz1] * n1, [J1] * n1, E, G, root)
    _blocks_close(out, "closed_form/disp", u, expected, _ftol(kappa), lchar=_extent(nodes),
                  floor=RF.roundoff_floor(nodes, [A1] * n1, [Iy1] * n1, [Iz1] * n1, [J1] * n1, E, G, loads, root))
    if kappa > 1e7:
        out.label("ill_conditioned(cond>1e7)")
    out.le("root_clamped", float(np.max(np.abs(u[root]))), 1e-12 * (float(np.max(np.abs(expected))) or 1.0))
    out.label("kind=" + desc["kind"], "nel=1" if nel == 1 else "nel>1")
    for nm, v in (("Paxial", P[0]), ("Py", P[1]), ("Pz", P[2]), ("torque", M[0]), ("My", M[1]), ("Mz", M[2])):
        if v != 0.0:
            out.label("load:" + nm)
    if np.count_nonzero(np.concatenate([P, M])) == 1:
        out.label("single_load_component")
    if desc["load_node"] > 0 and nel > 1:
        out.label("interior_load")
    if sd["tube"]:
        out.label("Iy=Iz")
    out.nontrivial = bool(np.any(loads != 0) and np.max(np.abs(expected)) > 0)
    return out


# ----------------------------------------------------------------------------------------------------------------
# tube rotation invariance


def rotation_config():
    return st.fixed_dictionaries(
        dict(
            beam=B.beam(layouts=("wing",), nel=(1, 6)),
            section=B.section(tube=True),
            loads=B.loads(lo=0.0),
            mode=st.sampled_from(["about_x", "general", "about_x", "general"]),
            axis=st.lists(S.fl(-1.0, 1.0, 0.0), min_size=3, max_size=3),
            angle=S.fl(-180.0, 180.0, 90.0),
            frac=S.fl(0.05, 1.0, 0.5),
        )
    )


def verdict_rotation(desc):
    from oasv import ref_frame as RF

    out = Outcome()
    nodes, ny, A, Iy, Iz, J, E, G, sym, root = _case(desc)
    # force / moment 3-vectors are entirely zero or generic, so that rotating them creates no tiny components
    f = B.nodal_loads(desc["loads"], ny, 0, vector_mask=True, root=root)
    if desc["mode"] == "about_x" or not np.any(np.array(desc["axis"])):
        # rotations about the x axis keep every element's angle to the x axis
        Rm = RF.rotation_matrix([1.0, 0.0, 0.0], desc["angle"] if desc["angle"] != 0 else 37.0)
        out.label("rotation=about_x")
    else:
        # a rotation by alpha changes the angle to the x axis by at most alpha: stay 5 deg away by construction
        margin = RF.min_angle_to_x(nodes) - B.MIN_ANGLE
        ang = desc["frac"] * max(margin, 0.0) * (1.0 if desc["angle"] >= 0 else -1.0)
        Rm = RF.rotation_matrix(desc["axis"], ang)
        out.label("rotation=general")
    o = nodes[root]
    nodes_r = o + (nodes - o) @ Rm.T
    assert RF.min_angle_to_x(nodes_r) >= B.MIN_ANGLE - 1e-7
    f_r = np.hstack([f[:, :3] @ Rm.T, f[:, 3:] @ Rm.T])
    # rotated load components must stay outside the zeroing band as well (probability ~1e-4 per component)
    if np.any((np.abs(f_r) > 0) & (np.abs(f_r) < 1e-4)):
        from oasv.core import Discard

        raise Discard("load component inside the zeroing band after rotation")
    u = B.solve_loads(B.beam_problem(nodes, A, Iy, Iz, J, E, G, sym), f)
    ur = B.solve_loads(B.beam_problem(nodes_r, A, Iy, Iz, J, E, G, sym), f_r)
    u_rot = np.hstack([u[:, :3] @ Rm.T, u[:, 3:] @ Rm.T])
    # the diagonally scaled condition number depends on the orientation: take the worse of the two
    kappa = max(RF.scaled_condition(nodes, A, Iy, Iz, J, E, G, root), RF.scaled_condition(nodes_r, A, Iy, Iz, J, E, G, root))
    free_loaded = bool(np.any(np.delete(f, root, axis=0) != 0.0))
    if free_loaded:
        _blocks_close(out, "rotation/disp", ur, u_rot, _ftol(kappa, 2), lchar=_extent(nodes),
                      floor=RF.roundoff_floor(nodes, A, Iy, Iz, J, E, G, f, root))
    out.label("kind=" + desc["beam"]["kind"])
    out.nontrivial = bool(free_loaded and np.max(np.abs(u)) > 0 and np.max(np.abs(Rm - np.eye(3))) > 1e-3)
    return out


# ----------------------------------------------------------------------------------------------------------------
# layer (b): SpatialBeamAlone


def alone_config(kinds=("left", "full", "asym"), nyh=(2, 5)):
    return st.fixed_dictionaries(
        dict(
            mesh=S.mesh(kinds=kinds, nx=(2, 3), nyh=nyh, winglet=True),
            model=st.sampled_from(["tube", "wingbox"]),
            fem_origin=S.fl(0.0, 1.0, 0.35),
            t_rel=S.fl(0.2, 0.9, 0.5),
            toc=S.fl(0.08, 0.18, 0.12),
            E=S.logfl(9.0, 11.5, 7.0e10),
            G_over_E=S.fl(0.3, 0.5, 0.4),
            loads=B.loads(),
            load_factor=S.fl(-2.0, 3.0, 1.0),
        )
    )


def _alone_surface(desc, mesh, symmetry):
    from oasv.models import struct_surface

    chord = float(np.min(np.linalg.norm(mesh[-1] - mesh[0], axis=1)))
    kw = dict(E=desc["E"], G=desc["E"] * desc["G_over_E"], fem_origin=desc["fem_origin"],
              t_over_c_cp=np.array([desc["toc"]]))
    if desc["model"] == "tube":
        # radius = t/c * chord / 2 (element average); thickness below the smallest radius
        kw["thickness_cp"] = desc["t_rel"] * 0.5 * desc["toc"] * chord * np.ones(2)
    else:
        kw["spar_thickness_cp"] = 0.05 * desc["t_rel"] * desc["toc"] * chord * np.ones(2)
        kw["skin_thickness_cp"] = 0.08 * desc["t_rel"] * desc["toc"] * chord * np.ones(2)
    s = struct_surface("wing", mesh, symmetry, model=desc["model"], **kw)
    return s


def _run_alone(desc, mesh, symmetry, loads):
    from oasv.models import struct_alone_problem

    surf = _alone_surface(desc, mesh, symmetry)
    prob = struct_alone_problem(surf, loads=loads, load_factor=desc["load_factor"])
    prob.run_model()
    g = {k: prob.get_val(k).copy() for k in ("nodes", "A", "Iy", "Iz", "J", "disp", "mesh")}
    return surf, g


def verdict_alone(desc):
    from oasv import ref_frame as RF
    from oasv.meshes import build_mesh

    out = Outcome()
    md = desc["mesh"]
    mesh = build_mesh(md)
    sym = md["kind"] == "left"
    ny = mesh.shape[1]
    root = RF.root_index(ny, sym)
    f = B.nodal_loads(desc["loads"], ny, 0, root=root)
    surf, g = _run_alone(desc, mesh, sym, f)
    nodes = g["nodes"]
    if RF.min_angle_to_x(nodes) < B.MIN_ANGLE:
        from oasv.core import Discard

        raise Discard("element within 5 deg of the x axis")
    for k in ("A", "Iy", "Iz", "J"):
        out.true("section_positive", bool(np.all(g[k] > 0)), "%s not positive: %r" % (k, g[k]))
    if out.fails:
        return out
    E, G = surf["E"], surf["G"]
    uf = RF.solve_flexibility(nodes, g["A"], g["Iy"], g["Iz"], g["J"], E, G, f, root)
    kappa = RF.scaled_condition(nodes, g["A"], g["Iy"], g["Iz"], g["J"], E, G, root)
    free_loaded = bool(np.any(np.delete(f, root, axis=0) != 0.0))
    if free_loaded:
        _blocks_close(out, "alone/ref_force_method/disp", g["disp"], uf, _ftol(kappa), lchar=_extent(nodes),
                      floor=RF.roundoff_floor(nodes, g["A"], g["Iy"], g["Iz"], g["J"], E, G, f, root))
        out.le("alone/equilibrium", RF.equilibrium_backward_error(nodes, g["A"], g["Iy"], g["Iz"], g["J"], E, G, f, root, g["disp"]),
               max(TOL, 10.0 * EPS * kappa, EPS * RF.unscaled_condition(nodes, g["A"], g["Iy"], g["Iz"], g["J"], E, G, root)))
    out.le("alone/root_clamped", float(np.max(np.abs(g["disp"][root]))), 1e-12 * (float(np.max(np.abs(uf))) or 1.0))
    if desc["model"] == "tube":
        # documented: FEM nodes at fem_origin * chord
        w = desc["fem_origin"]
        out.close("alone/nodes", nodes, (1 - w) * g["mesh"][0] + w * g["mesh"][-1], rtol=1e-13, atol=1e-13)
        out.close("alone/tube_Iy_eq_Iz", g["Iy"], g["Iz"], rtol=1e-14)
    out.label("model=" + desc["model"], "kind=" + md["kind"], "ny=%d" % ny if ny <= 3 else "ny>3")
    if md["side"]["winglet"] > 0:
        out.label("winglet")
    out.nontrivial = bool(np.any(np.delete(f, root, axis=0) != 0.0) and np.max(np.abs(g["disp"])) > 0)
    return out


# ----------------------------------------------------------------------------------------------------------------
# probe: half model given in right-half ordering (symmetry-plane node first)


def verdict_right_half(desc):
    """The statement clamps the symmetry-plane node of a half model.  For a right-half mesh (y >= 0, root first) the
    finite-element model clamps the last node, i.e. the tip.  Emits the dedicated key only for that exact signature."""
    from oasv import ref_frame as RF
    from oasv.meshes import build_mesh

    out = Outcome()
    md = dict(desc["mesh"])
    md["kind"] = "right"
    mesh = build_mesh(md)
    ny = mesh.shape[1]
    f = B.nodal_loads(dict(desc["loads"], density=1.0), ny, 0)  # every node loaded: both clamp candidates are visible
    surf, g = _run_alone(desc, mesh, True, f)
    nodes, u = g["nodes"], g["disp"]
    E, G = surf["E"], surf["G"]
    args = (nodes, g["A"], g["Iy"], g["Iz"], g["J"], E, G, f)
    u_plane = RF.solve_flexibility(*args, 0)  # symmetry-plane node (first) clamped: what the statement says
    u_tip = RF.solve_flexibility(*args, ny - 1)  # tip clamped

    def rel(a, b):
        return max(
            float(np.max(np.abs(a[:, blk] - b[:, blk]))) / (float(np.max(np.abs(b[:, blk]))) or 1.0)
            for blk in (slice(0, 3), slice(3, 6))
        )

    e_plane, e_tip = rel(u, u_plane), rel(u, u_tip)
    out.label("probe=right_half")
    out.nontrivial = bool(np.max(np.abs(u)) > 0)
    if e_plane <= TOL:
        out.le("right_half/plane_clamped", e_plane, TOL)
    elif e_tip <= TOL and np.max(np.abs(u[ny - 1])) <= 1e-12 * np.max(np.abs(u)) and np.max(np.abs(u[0])) > 0:
        out.fail(
            "right_half/tip_clamped_instead_of_symmetry_plane",
            "right-half symmetric model: tip node (index ny-1, y=%.3g) is clamped and the symmetry-plane node (index 0, "
            "y=%.3g) moves by %.3e; response equals the reference clamped at the tip (rel %.1e) and differs from the "
            "reference clamped at the symmetry plane by %.1e" % (nodes[-1, 1], nodes[0, 1], np.max(np.abs(u[0])), e_tip, e_plane),
            e_plane,
            TOL,
        )
    else:
        out.fail("right_half/other_discrepancy", "matches neither clamp location: %.2e / %.2e" % (e_plane, e_tip), min(e_plane, e_tip), TOL)
    return out


def probe_config():
    return st.fixed_dictionaries(
        dict(
            mesh=S.mesh(kinds=("right",), nx=(2, 2), nyh=(2, 4), winglet=False, noise=False),
            model=st.sampled_from(["tube", "wingbox"]),
            fem_origin=st.just(0.35),
            t_rel=st.just(0.5),
            toc=st.just(0.12),
            E=st.just(7.0e10),
            G_over_E=st.just(0.4),
            loads=B.loads(),
            load_factor=st.just(1.0),
        )
    )


_DIRECT_DEFAULTS = dict(beam=B.BEAM_DEFAULT, section=B.SECTION_DEFAULT, loads=B.LOADS_DEFAULT, a=1.0, b=1.0, neg=False)

SUBS = [
    Sub("frame_direct", direct_config(), verdict_direct, quick=1600, thorough=40000, defaults=_DIRECT_DEFAULTS),
    Sub("cantilever_closed_form", cantilever_config(), verdict_cantilever, quick=1280, thorough=30000,
        defaults=dict(kind="sym", nel=1, psi=90.0, phi=0.0, L=5.0, spacing=0.0, section=B.SECTION_DEFAULT, load_node=0.0,
                      origin=[0.0, 0.0, 0.0])),
    Sub("tube_rotation", rotation_config(), verdict_rotation, quick=640, thorough=16000,
        defaults=dict(beam=B.BEAM_DEFAULT, section=B.SECTION_DEFAULT, loads=B.LOADS_DEFAULT, mode="about_x", angle=90.0)),
    Sub("alone_vs_reference", alone_config(), verdict_alone, quick=640, thorough=16000),
    Sub("right_half_clamp_probe", probe_config(), verdict_right_half, quick=16, thorough=64),
]
