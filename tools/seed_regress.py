#!/usr/bin/env python3
"""tools/seed_regress.py [name ...] : re-run, for every archived seeded change (default: all of /verif/seeded), the quick
tier of the checks recorded as catching it, against a scratch worktree of /repo with the patch applied; prints one line per
(seed, check) and writes /verif/seeded/regression.json.  The worktree ($SEEDRUN_WT, default /tmp/wt_eval) must exist:
    git -C /repo worktree add --detach /tmp/wt_eval HEAD        (remove it afterwards)"""
import json
import os
import subprocess
import sys
import time

WT = os.environ.get("SEEDRUN_WT", "/tmp/wt_eval")
VERIF = os.path.dirname(os.path.dirname(os.path.abspath(__file__)))


def sh(cmd, **kw):
    return subprocess.run(cmd, shell=True, capture_output=True, text=True, **kw)


def main():
    names = sys.argv[1:] or sorted(n for n in os.listdir(os.path.join(VERIF, "seeded")) if os.path.isdir(os.path.join(VERIF, "seeded", n)))
    head = sh("git -C /repo rev-parse HEAD").stdout.strip()
    res = {}
    for name in names:
        d = os.path.join(VERIF, "seeded", name)
        meta = json.load(open(os.path.join(d, "meta.json")))
        props = [p for p, r in meta["verified_by_me"]["checks_quick_tier"].items() if r["exit"] == 1]
        sh("git -C %s checkout -q -- . && git -C %s clean -fdq && git -C %s checkout -q --detach %s" % (WT, WT, WT, head))
        base = head
        a = sh("git -C %s apply %s" % (WT, os.path.join(d, "patch.diff")))
        if a.returncode != 0:
            base = meta["verified_by_me"]["base_commit"]
            sh("git -C %s checkout -q --detach %s" % (WT, base))
            a = sh("git -C %s apply %s" % (WT, os.path.join(d, "patch.diff")))
            if a.returncode != 0:
                print("%-10s PATCH DOES NOT APPLY" % name)
                res[name] = {"error": "patch does not apply"}
                continue
        res[name] = {"base": base[:7], "checks": {}}
        for pid in props:
            t = time.time()
            r = subprocess.run("./check %s --no-evidence" % pid, shell=True, capture_output=True, text=True, cwd=VERIF,
                               env=dict(os.environ, VERIF_REPO=WT))
            res[name]["checks"][pid] = r.returncode
            print("%-10s %s exit=%d %s wall=%.0fs" % (name, pid, r.returncode, "CAUGHT" if r.returncode == 1 else "MISSED", time.time() - t), flush=True)
        sh("git -C %s checkout -q -- . && git -C %s clean -fdq" % (WT, WT))
    sh("git -C %s checkout -q --detach %s" % (WT, head))
    json.dump({"verif_commit": sh("git -C %s rev-parse --short HEAD" % VERIF).stdout.strip(), "repo_head": head[:7], "results": res},
              open(os.path.join(VERIF, "seeded", "regression.json"), "w"), indent=1)
    missed = [(n, p) for n, r in res.items() for p, c in r.get("checks", {}).items() if c != 1]
    print("missed:", missed)
    return 0


if __name__ == "__main__":
    sys.exit(main())
