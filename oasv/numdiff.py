"""Real-valued numerical differentiation with an error estimate (DESIGN.md section 3, oracle 1).

Complex step is deliberately NOT used: several OpenAeroStruct components declare complex-step partials, so a complex-step
reference would compare those with themselves and would not see a non-complex-safe edit of `compute`.

dir_derivative(f, ...) differentiates t -> f(x0 + t*d) at t=0 with the 5-point central stencil
    D(h) = (-f(2h) + 8 f(h) - 8 f(-h) + f(-2h)) / 12h
at h and h/2; |D(h/2) - D(h)| is the error estimate.  The stencil is tried on a ladder of steps and the rung with the
smallest estimate is used (stresses contain sqrt(s^2+3t^2) kinks and differences of large numbers: one fixed step is
either too coarse or too noisy)."""
import numpy as np


def _stencil(f, h, cache):
    def g(t):
        if t not in cache:
            cache[t] = np.array(f(t), dtype=float).ravel().copy()
        return cache[t]

    return (-g(2 * h) + 8.0 * g(h) - 8.0 * g(-h) + g(-2 * h)) / (12.0 * h)


def dir_derivative(f, ladder=(1e-3, 1e-4, 1e-5, 1e-2, 1e-6), good=1e-10, scale_floor=1e-300):
    """-> (D, err, info).  f: float -> array.  Stops early when the relative estimate is below `good`."""
    cache = {}
    best = None
    tried = []
    for h in ladder:
        try:
            D1 = _stencil(f, h, cache)
            D2 = _stencil(f, 0.5 * h, cache)
        except Exception as exc:  # evaluation failed at a perturbed point (e.g. left the admissible domain)
            tried.append((h, "exc:" + type(exc).__name__))
            continue
        if not (np.all(np.isfinite(D1)) and np.all(np.isfinite(D2))):
            tried.append((h, "nonfinite"))
            continue
        # Richardson difference + the round-off of the function evaluations amplified by 1/h (the Richardson difference of
        # a noise-dominated rung can be small by chance and would otherwise win the selection)
        mag = np.maximum(np.abs(cache[0.5 * h]), np.abs(cache[-0.5 * h]))
        err = np.abs(D2 - D1) + 16.0 * np.finfo(float).eps * mag / (0.5 * h)
        sc = max(float(np.max(np.abs(D2))) if D2.size else 0.0, scale_floor)
        score = float(np.max(err)) / sc if D2.size else 0.0
        tried.append((h, score))
        if best is None or score < best[0]:
            best = (score, D2, err, h)
        if score <= good:
            break
    if best is None:
        return None, None, {"tried": tried}
    return best[1], best[2], {"h": best[3], "score": best[0], "tried": tried, "evals": len(cache)}


def judge(out, key, Jd, D, err, rtol, atol=0.0, guard=20.0, inconclusive_at=1e-3, msg="", fmag=0.0):
    """compare analytic J.d with numerical D entry-wise:
        |Jd - D| <= max(rtol*scale, guard*err_i, atol),  scale = max|D| over the block.
    If the error estimate itself exceeds inconclusive_at*scale the comparison is inconclusive (not a violation)."""
    Jd = np.asarray(Jd, float).ravel()
    D = np.asarray(D, float).ravel()
    err = np.asarray(err, float).ravel()
    if Jd.shape != D.shape:
        out.fail(key, "shape mismatch J.d %s vs D %s %s" % (Jd.shape, D.shape, msg))
        return "fail"
    if Jd.size == 0:
        return "ok"
    if not np.all(np.isfinite(Jd)):
        out.fail(key, "analytic derivative not finite %s" % msg)
        return "fail"
    scale = max(float(np.max(np.abs(D))), float(np.max(np.abs(Jd))))
    if scale == 0.0:
        out._resid(key, 0.0, 1.0)
        return "ok"
    # directions are scaled like the inputs, so J.d lives on the scale of the outputs (fmag): differences below
    # 1e-10*fmag are round-off of the function evaluations, not derivative information
    atol = max(atol, 1e-10 * fmag)
    if float(np.max(err)) > inconclusive_at * max(scale, 1e-6 * fmag):
        out.note_inconclusive("%s: FD estimate error %.2e of scale" % (key, float(np.max(err)) / scale))
        return "inconclusive"
    tol = np.maximum(np.maximum(rtol * scale, guard * err), atol)
    diff = np.abs(Jd - D)
    i = int(np.argmax(diff / tol))
    out._resid(key, float(diff[i]), float(tol[i]))
    if diff[i] > tol[i]:
        out.fail(key, "%s |J.d - D|=%.3e > %.3e at flat index %d (J.d=%.6e D=%.6e, block scale %.3e)"
                 % (msg, diff[i], tol[i], i, Jd[i], D[i], scale), float(diff[i]), float(tol[i]))
        return "fail"
    return "ok"
