"""Independent references for a 3-D Euler-Bernoulli frame made of one polyline of beam elements (DESIGN.md section 3.3).

Nothing here imports OpenAeroStruct.  Two *different* solution methods are provided so that the reference can be
validated against itself and so that conditioning problems of a linear solve can be told from real discrepancies:

  solve_stiffness     textbook 12x12 element in local [u v w tx ty tz] x 2 ordering, direction-cosine transformation,
                      global assembly, clamped node removed by elimination, dense LAPACK solve.
  solve_flexibility   force method.  A polyline clamped at one node is statically determinate: the stress resultants
                      in every element follow from statics of the loads outboard of it, the curvature/twist/strain
                      from the section constitutive law, and the nodal motion from integrating them outwards from the
                      clamp.  No linear system is solved, so the result is accurate to round-off for any conditioning.

Modelling convention shared with the code under test because the property/documentation states it (it is an *input*
of the reference, not something the reference verifies): the local triad of an element running from node e to node e+1
is  x = element direction,  y = x cross e_x / |x cross e_x|,  z = x cross y ;  Iz is the second moment for bending in
the local x-y plane (deflection along y, rotation about z), Iy for bending in the local x-z plane.

Closed-form cantilever results (textbook) are in `cantilever_closed_form`.
"""
import numpy as np

EX = np.array([1.0, 0.0, 0.0])


def triad(d):
    """rows x, y, z of the local frame of an element with direction vector d (documented convention)"""
    d = np.asarray(d, float)
    x = d / np.sqrt(d @ d)
    y = np.cross(x, EX)
    y = y / np.sqrt(y @ y)
    z = np.cross(x, y)
    return np.vstack([x, y, z])


def angle_to_x_deg(d):
    d = np.asarray(d, float)
    c = abs(d[..., 0]) / np.sqrt(np.sum(d * d, axis=-1))
    return np.degrees(np.arccos(np.clip(c, 0.0, 1.0)))


def min_angle_to_x(nodes):
    nodes = np.asarray(nodes, float)
    return float(np.min(angle_to_x_deg(nodes[1:] - nodes[:-1])))


def root_index(ny, symmetry):
    """clamped node: symmetry-plane node (last) for a half model, centre node for full span"""
    return ny - 1 if symmetry else (ny - 1) // 2


# ----------------------------------------------------------------------------------------------------------------
# stiffness method


def element_stiffness_local(EA, GJ, EIy, EIz, L):
    """12x12 Euler-Bernoulli space-frame element, dofs [u v w tx ty tz] at end 1 then end 2 (right-handed, ty = -dw/dx)"""
    k = np.zeros((12, 12))
    a = EA / L
    for i, j, s in ((0, 0, 1), (0, 6, -1), (6, 0, -1), (6, 6, 1)):
        k[i, j] += s * a
    t = GJ / L
    for i, j, s in ((3, 3, 1), (3, 9, -1), (9, 3, -1), (9, 9, 1)):
        k[i, j] += s * t
    # bending in the x-y plane: dofs v1, tz1, v2, tz2 ; tz = +dv/dx
    c = EIz / L ** 3
    m = c * np.array(
        [
            [12.0, 6 * L, -12.0, 6 * L],
            [6 * L, 4 * L * L, -6 * L, 2 * L * L],
            [-12.0, -6 * L, 12.0, -6 * L],
            [6 * L, 2 * L * L, -6 * L, 4 * L * L],
        ]
    )
    idx = (1, 5, 7, 11)
    for p in range(4):
        for q in range(4):
            k[idx[p], idx[q]] += m[p, q]
    # bending in the x-z plane: dofs w1, ty1, w2, ty2 ; ty = -dw/dx
    c = EIy / L ** 3
    m = c * np.array(
        [
            [12.0, -6 * L, -12.0, -6 * L],
            [-6 * L, 4 * L * L, 6 * L, 2 * L * L],
            [-12.0, 6 * L, 12.0, 6 * L],
            [-6 * L, 2 * L * L, 6 * L, 4 * L * L],
        ]
    )
    idx = (2, 4, 8, 10)
    for p in range(4):
        for q in range(4):
            k[idx[p], idx[q]] += m[p, q]
    return k


def element_stiffness_global(p0, p1, A, Iy, Iz, J, E, G):
    d = np.asarray(p1, float) - np.asarray(p0, float)
    L = float(np.sqrt(d @ d))
    R = triad(d)
    k = element_stiffness_local(E * A, G * J, E * Iy, E * Iz, L)
    T = np.zeros((12, 12))
    for q in range(4):
        T[3 * q : 3 * q + 3, 3 * q : 3 * q + 3] = R
    return T.T @ k @ T


def assemble(nodes, A, Iy, Iz, J, E, G):
    nodes = np.asarray(nodes, float)
    n = nodes.shape[0]
    K = np.zeros((6 * n, 6 * n))
    for e in range(n - 1):
        kg = element_stiffness_global(nodes[e], nodes[e + 1], A[e], Iy[e], Iz[e], J[e], E, G)
        sl = slice(6 * e, 6 * e + 12)
        K[sl, sl] += kg
    return K


def free_dofs(n, root):
    return np.array([i for i in range(6 * n) if i // 6 != root], dtype=int)


def solve_stiffness(nodes, A, Iy, Iz, J, E, G, loads, root):
    """displacements (n, 6) with node `root` clamped (elimination); symmetric diagonal scaling before the solve"""
    nodes = np.asarray(nodes, float)
    n = nodes.shape[0]
    K = assemble(nodes, A, Iy, Iz, J, E, G)
    free = free_dofs(n, root)
    Kff = K[np.ix_(free, free)]
    f = np.asarray(loads, float).reshape(-1)[free]
    s = 1.0 / np.sqrt(np.diag(Kff))
    y = np.linalg.solve(Kff * s[:, None] * s[None, :], f * s)
    u = np.zeros(6 * n)
    u[free] = y * s
    return u.reshape(n, 6)


def equilibrium_backward_error(nodes, A, Iy, Iz, J, E, G, loads, root, disp, floor=1.0):
    """max over free dofs of |K u - f|_i / (sum_j |K_ij||u_j| + |f_i| + floor * K_ii * s_i)

    Component-wise backward error of the equilibrium equations assembled by the reference, evaluated with the
    displacements under test.  s_i = largest translation (rotation) of the case for a translational (rotational) row:
    a forward error of tol * s_i in u_i alone changes row i by tol * K_ii * s_i, so rows that carry nothing but
    round-off (an unloaded branch of a full-span beam) are judged against that and not against their own noise."""
    nodes = np.asarray(nodes, float)
    n = nodes.shape[0]
    K = assemble(nodes, A, Iy, Iz, J, E, G)
    free = free_dofs(n, root)
    d = np.asarray(disp, float).reshape(n, 6)
    u = d.reshape(-1)
    f = np.asarray(loads, float).reshape(-1)
    st = float(np.max(np.abs(d[:, :3])))
    sr = float(np.max(np.abs(d[:, 3:])))
    # a block that is theoretically zero (e.g. rotations under a purely axial load) carries round-off of the other
    # block's size: convert with the extent of the beam
    lchar = 2.0 * float(np.max(np.sqrt(np.sum((nodes - nodes.mean(axis=0)) ** 2, axis=1))))
    st, sr = max(st, sr * lchar), max(sr, st / lchar)
    s = np.tile(np.array([st, st, st, sr, sr, sr]), n)
    r = K[free] @ u - f[free]
    den = np.abs(K[free]) @ np.abs(u) + np.abs(f[free]) + floor * np.diag(K)[free] * s[free]
    den = np.where(den > 0, den, 1.0)
    return float(np.max(np.abs(r) / den))


def roundoff_floor(nodes, A, Iy, Iz, J, E, G, loads, root, ulps=64.0):
    """-> (translation floor, rotation floor): response of the beam to a perturbation of every load component by `ulps`
    units of round-off of the largest load of its kind (moments: also the largest force times the extent of the beam).
    No solver working in double precision can resolve displacements below this: a bending-soft spar (EI/L^2 ten decades
    below EA) turns the 1e-16 relative rounding of a purely axial load into a rotation of that size."""
    nodes = np.asarray(nodes, float)
    n = nodes.shape[0]
    K = assemble(nodes, A, Iy, Iz, J, E, G)
    free = free_dofs(n, root)
    Kff = K[np.ix_(free, free)]
    sc = 1.0 / np.sqrt(np.diag(Kff))
    F = np.abs(np.linalg.inv(Kff * sc[:, None] * sc[None, :]) * sc[:, None] * sc[None, :])
    L = np.asarray(loads, float).reshape(n, 6)
    lchar = 2.0 * float(np.max(np.sqrt(np.sum((nodes - nodes.mean(axis=0)) ** 2, axis=1))))
    fmax = float(np.max(np.abs(L[:, :3])))
    mmax = max(float(np.max(np.abs(L[:, 3:]))), fmax * lchar)
    fmax = max(fmax, mmax / lchar)
    df = np.tile(np.array([fmax] * 3 + [mmax] * 3), n)[free] * ulps * np.finfo(float).eps
    du = np.zeros(6 * n)
    du[free] = F @ df
    du = du.reshape(n, 6)
    return float(np.max(du[:, :3])), float(np.max(du[:, 3:]))


def scaled_condition(nodes, A, Iy, Iz, J, E, G, root):
    """2-norm condition number of the symmetrically diagonal-scaled free-free stiffness matrix.  Measured on the
    unchanged tree: the forward error of the displacements under test is <= ~1.2 * eps * this number."""
    nodes = np.asarray(nodes, float)
    K = assemble(nodes, A, Iy, Iz, J, E, G)
    free = free_dofs(nodes.shape[0], root)
    Kff = K[np.ix_(free, free)]
    s = 1.0 / np.sqrt(np.diag(Kff))
    return float(np.linalg.cond(Kff * s[:, None] * s[None, :]))


def unscaled_condition(nodes, A, Iy, Iz, J, E, G, root):
    """2-norm condition number of the free-free stiffness matrix as it stands (no scaling): what an elimination without
    equilibration (scipy's LU of the assembled matrix, as the code under test uses) has to live with when the bending
    stiffness EI/L is ten decades below the axial stiffness EA/L"""
    nodes = np.asarray(nodes, float)
    K = assemble(nodes, A, Iy, Iz, J, E, G)
    free = free_dofs(nodes.shape[0], root)
    return float(np.linalg.cond(K[np.ix_(free, free)]))


# ----------------------------------------------------------------------------------------------------------------
# force (flexibility) method


def _compliance(R, GJ, EIy, EIz):
    """curvature vector = C^-1 . moment vector, written in global axes"""
    x, y, z = R
    return np.outer(x, x) / GJ + np.outer(y, y) / EIy + np.outer(z, z) / EIz


def solve_flexibility(nodes, A, Iy, Iz, J, E, G, loads, root):
    """displacements (n, 6) of the clamped polyline by integrating strains outwards from the clamp"""
    nodes = np.asarray(nodes, float)
    loads = np.asarray(loads, float)
    n = nodes.shape[0]
    u = np.zeros((n, 6))
    for step in (+1, -1):
        # branch from the clamp towards increasing / decreasing node index
        order = list(range(root, n)) if step > 0 else list(range(root, -1, -1))
        for pos in range(len(order) - 1):
            ia, ib = order[pos], order[pos + 1]
            e = min(ia, ib)  # element index (properties and triad are defined from node e to node e+1)
            a, b = nodes[ia], nodes[ib]
            outboard = order[pos + 1 :]
            F = loads[outboard, :3].sum(axis=0)
            Mb = (loads[outboard, 3:] + np.cross(nodes[outboard] - b, loads[outboard, :3])).sum(axis=0)
            t = b - a
            L = float(np.sqrt(t @ t))
            t = t / L
            R = triad(nodes[e + 1] - nodes[e])
            Ci = _compliance(R, G * J[e], E * Iy[e], E * Iz[e])
            txF = np.cross(t, F)
            eps = (F @ t) / (E * A[e])
            th_a = u[ia, 3:]
            dth = Ci @ (Mb * L + txF * (L * L / 2.0))
            iint = Ci @ (Mb * (L * L / 2.0) + txF * (L ** 3 / 3.0))
            u[ib, 3:] = th_a + dth
            u[ib, :3] = u[ia, :3] + eps * L * t + np.cross(th_a * L + iint, t)
    return u


# ----------------------------------------------------------------------------------------------------------------
# textbook closed forms: straight uniform cantilever, arbitrary station along the beam


def cantilever_closed_form(s, a, EA, GJ, EIy, EIz, P_loc, M_loc):
    """local-frame response (u, v, w, tx, ty, tz) at distance s from the clamp of a straight uniform cantilever whose
    local x axis points away from the clamp, loaded at distance a by a force P_loc = (Px, Py, Pz) and a moment
    M_loc = (Mx, My, Mz) given in the local frame.  Textbook formulas:
        tip force   v(s) = P s^2 (3a - s) / 6EI  (s <= a),  P a^2 (3s - a) / 6EI  (s >= a)
        end moment  v(s) = M s^2 / 2EI           (s <= a),  M a (2s - a) / 2EI    (s >= a)
        axial P s / EA, torsion T s / GJ (up to the load point, constant beyond)."""
    s = float(s)
    a = float(a)
    m = min(s, a)
    Px, Py, Pz = P_loc
    Mx, My, Mz = M_loc

    def defl_force(P, EI):
        if s <= a:
            return P * s * s * (3 * a - s) / (6 * EI), P * s * (2 * a - s) / (2 * EI)
        return P * a * a * (3 * s - a) / (6 * EI), P * a * a / (2 * EI)

    def defl_moment(M, EI):
        if s <= a:
            return M * s * s / (2 * EI), M * s / EI
        return M * a * (2 * s - a) / (2 * EI), M * a / EI

    u = Px * m / EA
    tx = Mx * m / GJ
    # x-y plane (EIz): slope = +tz
    v1, sl1 = defl_force(Py, EIz)
    v2, sl2 = defl_moment(Mz, EIz)
    v = v1 + v2
    tz = sl1 + sl2
    # x-z plane (EIy): slope dw/dx = -ty ; a positive My produces negative w
    w1, sw1 = defl_force(Pz, EIy)
    w2, sw2 = defl_moment(-My, EIy)
    w = w1 + w2
    ty = -(sw1 + sw2)
    return np.array([u, v, w, tx, ty, tz])


def rotation_matrix(axis, angle_deg):
    axis = np.asarray(axis, float)
    axis = axis / np.sqrt(axis @ axis)
    a = np.radians(angle_deg)
    Kx = np.array([[0, -axis[2], axis[1]], [axis[2], 0, -axis[0]], [-axis[1], axis[0], 0]])
    return np.eye(3) + np.sin(a) * Kx + (1 - np.cos(a)) * (Kx @ Kx)


def self_test(n_cases=50, seed=0):
    """stiffness vs force method vs closed forms; returns the worst relative discrepancies"""
    rng = np.random.default_rng(seed)
    worst = {"stiff_vs_flex": 0.0, "flex_vs_closed": 0.0}
    for _ in range(n_cases):
        n = int(rng.integers(2, 9))
        root = int(rng.integers(0, n))
        d = rng.standard_normal((n - 1, 3))
        d[:, 1] += 2.0
        nodes = np.vstack([np.zeros(3), np.cumsum(d, axis=0)])
        A, Iy, Iz, J = (10 ** rng.uniform(lo, lo + 2, n - 1) for lo in (-4, -7, -7, -7))
        loads = rng.standard_normal((n, 6)) * 1e3
        E, G = 7e10, 3e10
        u1 = solve_stiffness(nodes, A, Iy, Iz, J, E, G, loads, root)
        u2 = solve_flexibility(nodes, A, Iy, Iz, J, E, G, loads, root)
        for blk in (slice(0, 3), slice(3, 6)):
            sc = np.max(np.abs(u2[:, blk]))
            worst["stiff_vs_flex"] = max(worst["stiff_vs_flex"], float(np.max(np.abs(u1[:, blk] - u2[:, blk])) / sc))
        # closed form
        L = 4.0
        n = 5
        dirv = rng.standard_normal(3)
        dirv[1] += 1.5
        dirv /= np.linalg.norm(dirv)
        st = np.sort(rng.uniform(0, L, n - 1))
        st = np.concatenate([[0.0], st])
        nodes = st[:, None] * dirv[None, :]
        R = triad(dirv)
        P, M = rng.standard_normal(3) * 1e3, rng.standard_normal(3) * 1e3
        k = int(rng.integers(1, n))
        loads = np.zeros((n, 6))
        loads[k, :3] = R.T @ P
        loads[k, 3:] = R.T @ M
        A1, Iy1, Iz1, J1 = 2e-3, 3e-6, 7e-6, 5e-6
        u = solve_flexibility(nodes, [A1] * 4, [Iy1] * 4, [Iz1] * 4, [J1] * 4, E, G, loads, 0)
        for i in range(n):
            c = cantilever_closed_form(st[i], st[k], E * A1, G * J1, E * Iy1, E * Iz1, P, M)
            loc = np.concatenate([R @ u[i, :3], R @ u[i, 3:]])
            sc = max(np.max(np.abs(c)), 1e-300)
            worst["flex_vs_closed"] = max(worst["flex_vs_closed"], float(np.max(np.abs(loc - c)) / max(sc, np.max(np.abs(u)))))
    return worst


if __name__ == "__main__":
    print(self_test())
