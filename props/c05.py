"""C05  The VLM solution satisfies flow tangency and matches an independent reference (DESIGN.md section 4, C05)."""
import numpy as np
from hypothesis import strategies as st

from oasv import strategies as S
from oasv.core import Outcome, Sub
from oasv.layouts import place_surfaces, symmetry_of
from oasv.models import aero_direct, aero_surface

RULE = (
    "Hypothesis draws 1-3 lifting surfaces (symmetric left/right halves, mirror-symmetric and asymmetric full span; "
    "nx 2-4(6), ny/half 2-4(6); sweep, taper, dihedral, twist, camber, winglet, cosine/uniform spacing, smooth noise), "
    "placed by construction outside each other's wakes, plus alpha, beta in [-15,15] deg, v, rho and optionally rotation "
    "rates about a drawn cg.  Meshes are fed to AeroPoint directly.  Oracles: linear-system residual; independent "
    "loop-based Biot-Savart reference (oasv/ref_vlm.py) for AIC matrix, rhs, circulations, force-point velocities and "
    "sectional forces; Kutta-Joukowski definition recomputed from OAS's own circulations/velocities/bound vectors; "
    "normal velocity at every 3/4-chord point evaluated by the reference's induction routine with OAS's circulations. "
    "non-trivial = at least 2 panels and |sum F| > 1e-9*q*S; distinct = descriptor digest (6 significant digits)."
)
ASSUMPTIONS = [
    "tolerance 1e-9 relative to the largest entry of each compared array (measured floor 2e-15)",
    "non-degeneracy by construction: no point of a surface inside the wake band of another (oasv/layouts.py)",
    "symmetric surfaces have their root edge exactly on y=0 (off-plane symmetric surfaces are C04's known finding)",
    "shared documented modelling conventions: ring layout, 1/4-chord bound vortex, 3/4-chord collocation, wake along alpha",
]


def config():
    return st.fixed_dictionaries(dict(surfaces=S.aero_config(max_surf=3), flow=S.flow(beta=True, rot=True)))


def config_big():
    return st.fixed_dictionaries(
        dict(surfaces=S.aero_config(max_surf=3, nx=(2, 6), nyh=(2, 6), max_panels=110), flow=S.flow(beta=True, rot=True))
    )


def verdict(desc):
    from oasv import ref_vlm

    out = Outcome()
    fl = desc["flow"]
    meshes = place_surfaces(desc["surfaces"], fl["alpha"])
    syms = [symmetry_of(s["mesh"]) for s in desc["surfaces"]]
    surfaces = [aero_surface("s%d" % k, m, syms[k]) for k, m in enumerate(meshes)]
    prob = aero_direct(surfaces, fl)
    prob.run_model()
    P = "aero_point_0.aero_states."
    mtx = prob.get_val(P + "mtx")
    rhs = prob.get_val(P + "rhs")
    circ = prob.get_val(P + "circulations")
    hcirc = prob.get_val(P + "horseshoe_circulations")
    fvel = prob.get_val(P + "force_pts_velocities")
    bvec = prob.get_val(P + "bound_vecs")
    coll = prob.get_val(P + "coll_pts")
    fpts = prob.get_val(P + "force_pts")
    secf = [prob.get_val(P + "s%d_sec_forces" % k) for k in range(len(meshes))]
    normals = np.concatenate([prob.get_val("aero_point_0.s%d.normals" % k).reshape(-1, 3) for k in range(len(meshes))])
    rho, v = fl["rho"], fl["v"]

    ref = ref_vlm.solve(meshes, syms, fl["alpha"], fl["beta"], v, rho, omega=fl.get("omega"), cg=fl.get("cg"))
    N = ref["G"].size
    vscale = max(float(np.max(np.abs(ref["onset"]))), v)
    # 1 invariant
    out.le("residual", np.max(np.abs(mtx @ circ - rhs)), 1e-10 * max(np.max(np.abs(rhs)), 1e-300))
    # 2 reference
    out.close("ref/coll_pts", coll, ref["coll"], rtol=1e-12, atol=1e-13)
    out.close("ref/force_pts", fpts, ref["lattice"].fpt, rtol=1e-12, atol=1e-13)
    out.close("ref/bound_vecs", bvec, ref["bv"], rtol=1e-12, atol=1e-13)
    out.close("ref/normals", normals, ref["nrm"], rtol=1e-10, scale=1.0)
    out.close("ref/mtx", mtx, ref["AIC"], rtol=1e-9)
    out.close("ref/rhs", rhs, ref["rhs"], rtol=1e-9, scale=vscale)
    out.close("ref/circulations", circ, ref["G"], rtol=1e-9)
    out.close("ref/horseshoe", hcirc, ref["Gh"], rtol=1e-9, scale=float(np.max(np.abs(ref["G"]))))
    out.close("ref/force_pts_velocities", fvel, ref["Vloc"], rtol=1e-9)
    fscale = max(float(np.max(np.abs(f))) for f in ref["F"])
    for k, f in enumerate(secf):
        out.close("ref/sec_forces", f, ref["F"][k], rtol=1e-9, scale=fscale)
    # 3 definition from OAS's own quantities
    Fdef = rho * hcirc[:, None] * np.cross(fvel, bvec)
    out.close("definition/sec_forces", np.concatenate([f.reshape(-1, 3) for f in secf]), Fdef, rtol=1e-10)
    # 4 independent tangency with OAS's circulations
    vn = ref_vlm.normal_velocity(ref["lattice"], circ, ref["onset"])
    out.le("tangency", np.max(np.abs(vn)), 1e-9 * vscale)

    kinds = [s["mesh"]["kind"] for s in desc["surfaces"]]
    out.label("nsurf=%d" % len(meshes))
    for kd in sorted(set(kinds)):
        out.label("kind=" + kd)
    if any(s["mesh"]["nx"] > 2 for s in desc["surfaces"]):
        out.label("nx>2")
    if fl["beta"] != 0:
        out.label("sideslip")
    if "omega" in fl:
        out.label("rotation")
    if any(s["mesh"]["noise_amp"] > 0 for s in desc["surfaces"]):
        out.label("noise")
    if any(s["mesh"]["side"]["winglet"] > 0 for s in desc["surfaces"]):
        out.label("winglet")
    Ftot = np.abs(sum(f.sum(axis=(0, 1)) for f in secf)).max()
    S = sum(prob.get_val("aero_point_0.s%d.S_ref" % k)[0] for k in range(len(meshes)))
    out.nontrivial = bool(N >= 2 and Ftot > 1e-9 * 0.5 * rho * v * v * S)
    return out


SUBS = [
    Sub("vlm_vs_reference", config(), verdict, quick=320, thorough=6000),
    Sub("vlm_vs_reference_fine", config_big(), verdict, quick=48, thorough=1500),
]
