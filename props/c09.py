"""C09  Compressibility correction implements Prandtl-Glauert and is exact at Mach 0 (DESIGN.md section 4, C09)."""
import numpy as np
from hypothesis import strategies as st

from oasv import strategies as S
from oasv.core import Outcome, Sub
from oasv.layouts import place_surfaces, symmetry_of
from oasv.models import aero_direct, aero_surface

RULE = (
    "Hypothesis draws 1-2 surfaces (all mesh families, placed outside each other's wakes), M in [0,0.95) (specials 0, 0.3, "
    "0.84, 0.94), alpha in [-15,15], beta in [-15,15] when no symmetric surface is present (else 0), v, rho; rotation rates in the Mach-0 identity only. "
    "Oracles: (1) differential against the incompressible solver: rotate the mesh into the wind frame with T_w(alpha,beta), "
    "stretch y,z by B=sqrt(1-M^2), run the incompressible AeroPoint at alpha=beta=0, scale forces by (B^-4,B^-3,B^-3), rotate "
    "back with T_w^T; must equal compressible sec_forces; (2) M=0, beta=0: compressible == incompressible for forces, CL, CD, "
    "CM; (3) continuity: |F(M+d)-F(M)| <= d*(1+20 M/B^2)|F| for d in {1e-3,1e-4}.  non-trivial = lifting case with M>0 for "
    "(1)/(3); distinct by descriptor digest."
)
ASSUMPTIONS = [
    "tolerance 1e-9 relative to the largest force entry (measured floor 1e-15)",
    "rotation rates are excluded from the transformation identity (the statement does not say how onset velocities transform) "
    "but included in the Mach-0 identity (there the transformation is the identity)",
    "sideslip only without symmetric surfaces",
    "the incompressible solver itself is tied to the independent reference by C05",
]


def Tw(a, b):
    ca, sa, cb, sb = np.cos(a), np.sin(a), np.cos(b), np.sin(b)
    return np.array([[cb * ca, -sb, cb * sa], [sb * ca, cb, sb * sa], [-sa, 0.0, ca]])


@st.composite
def config(draw):
    surfaces = draw(S.aero_config(max_surf=2, nx=(2, 4), nyh=(2, 4), max_panels=30))
    anysym = any(symmetry_of(s["mesh"]) for s in surfaces)
    return dict(
        surfaces=surfaces,
        alpha=draw(S.fl(-15.0, 15.0, 4.0, 0.0)),
        beta=0.0 if anysym else draw(S.fl(-15.0, 15.0, 0.0, 5.0)),
        Mach=draw(st.one_of(st.sampled_from([0.3, 0.0, 0.84, 0.94]), st.floats(0.0, 0.949).map(lambda x: 0.0 if x < 1e-4 else x))),
        v=draw(S.fl(10.0, 300.0, 100.0)),
        rho=draw(S.fl(0.1, 2.0, 1.0)),
        # rotation rates (rad/s) about a reference point: used for the Mach-0 identity only
        omega=draw(st.one_of(st.none(), st.none(), st.lists(S.fl(-0.5, 0.5, 0.1), min_size=3, max_size=3))),
        cg=[draw(S.fl(-3.0, 3.0, 0.0)) for _ in range(3)],
    )


def _forces(prob, ns):
    return [prob.get_val("aero_point_0.aero_states.s%d_sec_forces" % k).copy() for k in range(ns)]


def verdict(desc):
    out = Outcome()
    alpha, beta, M = desc["alpha"], desc["beta"], desc["Mach"]
    meshes = place_surfaces(desc["surfaces"], alpha)
    syms = [symmetry_of(s["mesh"]) for s in desc["surfaces"]]
    ns = len(meshes)
    surfaces = [aero_surface("s%d" % k, m, syms[k]) for k, m in enumerate(meshes)]
    fl = dict(alpha=alpha, beta=beta, v=desc["v"], rho=desc["rho"], Mach=M)
    pc = aero_direct(surfaces, fl, compressible=True)
    pc.run_model()
    Fc = _forces(pc, ns)
    fscale = max(float(np.max(np.abs(f))) for f in Fc)
    S_tot = sum(pc.get_val("aero_point_0.s%d.S_ref" % k)[0] for k in range(ns))
    # a (nearly) non-lifting configuration has forces that are pure round-off of the O(q S) panel terms
    fscale = max(fscale, 1e-6 * 0.5 * desc["rho"] * desc["v"] ** 2 * S_tot)
    B = np.sqrt(1.0 - M * M)
    T = Tw(np.radians(alpha), np.radians(beta))
    # (1) transformation identity against the incompressible solver
    pg_surfaces = [aero_surface("s%d" % k, (m @ T.T) * np.array([1.0, B, B]), syms[k]) for k, m in enumerate(meshes)]
    pi = aero_direct(pg_surfaces, dict(alpha=0.0, beta=0.0, v=desc["v"], rho=desc["rho"], Mach=M), compressible=False)
    pi.run_model()
    for k, f in enumerate(_forces(pi, ns)):
        Fa = (f * np.array([B ** -4, B ** -3, B ** -3])) @ T
        out.close("pg_identity/sec_forces", Fc[k], Fa, rtol=1e-9, scale=fscale)
    # (2) Mach 0
    if beta == 0.0:
        f0 = dict(fl, Mach=0.0)
        if desc.get("omega") and any(w != 0.0 for w in desc["omega"]):
            # with rotation rates the onset velocities omega x (r - cg) enter as well: at Mach 0 the compressible pipeline
            # (rotate into the wind frame, solve, rotate back) must still reproduce the incompressible one
            f0.update(omega=desc["omega"], cg=desc["cg"])
            out.label("mach0-with-rotation-rates")
        p0 = aero_direct(surfaces, f0, compressible=True)
        p0.run_model()
        pinc = aero_direct(surfaces, f0, compressible=False)
        pinc.run_model()
        F0, Fi = _forces(p0, ns), _forces(pinc, ns)
        s0 = max(max(float(np.max(np.abs(f))) for f in Fi), 1e-6 * 0.5 * desc["rho"] * desc["v"] ** 2 * S_tot)
        for k in range(ns):
            out.close("mach0/sec_forces", F0[k], Fi[k], rtol=1e-9, scale=s0)
        for c in ("CL", "CD", "CM"):
            out.close("mach0/" + c, p0.get_val("aero_point_0." + c), pinc.get_val("aero_point_0." + c), rtol=1e-9, atol=1e-12)
        out.label("mach0-checked")
    # (3) continuity in Mach
    for d in (1e-3, 1e-4):
        if M + d < 0.95:
            pc.set_val("Mach_number", M + d)
            pc.run_model()
            Fd = _forces(pc, ns)
            B2 = 1.0 - (M + d) ** 2
            bound = d * (1.0 + 20.0 * (M + d) / B2) * fscale
            err = max(float(np.max(np.abs(Fd[k] - Fc[k]))) for k in range(ns))
            out.le("continuity/d=%g" % d, err, bound)
    out.label("nsurf=%d" % ns)
    out.label("M=0" if M == 0 else ("M<0.5" if M < 0.5 else ("M<0.85" if M < 0.85 else "M>=0.85")))
    if beta != 0:
        out.label("sideslip")
    if any(syms):
        out.label("has-symmetric")
    if not all(syms):
        out.label("has-fullspan")
    S_ref = sum(pc.get_val("aero_point_0.s%d.S_ref" % k)[0] for k in range(ns))
    Ftot = np.abs(sum(f.sum(axis=(0, 1)) for f in Fc)).max()
    out.nontrivial = bool(Ftot > 1e-9 * 0.5 * desc["rho"] * desc["v"] ** 2 * S_ref and M > 0)
    return out


SUBS = [Sub("prandtl_glauert", config(), verdict, quick=640, thorough=10000)]
