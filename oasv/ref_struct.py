"""First-principles restatements used by C15 (stress recovery, failure aggregation) and C16 (mass, cg, inertial loads).

Nothing here imports OpenAeroStruct.  Formulas are written from the property statements / beam theory:

tube (thin-walled circular section of outer radius r), per element with end displacements u0,u1 and rotations t0,t1:
    axial strain      eps   = (u1-u0).x / L
    mean curvature    kappa = |(t1-t0) - ((t1-t0).x) x| / L          (component of the rotation jump normal to the axis)
    twist rate        phi'  = (t1-t0).x / L
    extreme fibres    sigma = +-E eps + E r kappa  (tension-side / compression-side fibre), tau = G r phi'
    von Mises         sqrt(sigma^2 + 3 tau^2)
  No local y/z axes are needed (circular section), so this shares no triad code with the implementation.

wingbox, per element: the element's deformed axis is the Euler-Bernoulli (Hermite cubic) interpolant of its end values in
the documented local frame x = axis, y = x cross e_x (points down for a wing), z = x cross y (points forward); section
at xi in [0, 1]:
    axial  E eps ;  vertical bending  E v''(xi) * (+htop, -hbottom)  (top skin at local y = -htop, strain = -y v'')
    fore-aft bending  -E z w''(xi):  front spar at z = +hfront, rear spar at z = -hrear  (s_foreaft = -1: physical);
                      s_foreaft = +1 evaluates the mirrored assignment (front at z = -hfront)
    Bredt torsion  tau = G J phi' / (2 t A_enc) ;  transverse shear  tau_v = V Q / (I 2t) = -E v''' Qz / (2 t)
    combinations (statement / Chauhan & Martins 2018): 0 top skin + rear spar corner, 1 bottom skin + front spar corner,
    2 front spar (shear: torsion - vertical), 3 rear spar (torsion + vertical); 0 and 3 divided by the upper-skin
    strength factor.
"""
import numpy as np

G0 = 9.80665

EX = np.array([1.0, 0.0, 0.0])


def _triad(d):
    x = d / np.sqrt(d @ d)
    y = np.cross(x, EX)
    y = y / np.sqrt(y @ y)
    z = np.cross(x, y)
    return x, y, z


def tube_strains(nodes, disp):
    nodes = np.asarray(nodes, float)
    disp = np.asarray(disp, float)
    d = nodes[1:] - nodes[:-1]
    L = np.sqrt(np.sum(d * d, axis=1))
    x = d / L[:, None]
    du = disp[1:, :3] - disp[:-1, :3]
    dt = disp[1:, 3:] - disp[:-1, 3:]
    eps = np.sum(du * x, axis=1) / L
    tw = np.sum(dt * x, axis=1)
    perp = dt - tw[:, None] * x
    kappa = np.sqrt(np.sum(perp * perp, axis=1)) / L
    return eps, kappa, tw / L


def tube_vonmises(nodes, radius, disp, E, G):
    eps, kappa, phi = tube_strains(nodes, disp)
    r = np.asarray(radius, float)
    tau = G * r * phi
    s0 = E * eps + E * r * kappa
    s1 = -E * eps + E * r * kappa
    return np.stack([np.sqrt(s0 ** 2 + 3 * tau ** 2), np.sqrt(s1 ** 2 + 3 * tau ** 2)], axis=1)


def hermite_dd(q0, s0, q1, s1, L, xi):
    """second derivative at xi of the cubic with end values q0, q1 and end slopes s0, s1 on [0, L]"""
    return ((-6 + 12 * xi) * q0 + (6 - 12 * xi) * q1) / L ** 2 + ((-4 + 6 * xi) * s0 + (-2 + 6 * xi) * s1) / L


def hermite_ddd(q0, s0, q1, s1, L):
    return (12 * q0 - 12 * q1) / L ** 3 + (6 * s0 + 6 * s1) / L ** 2


def wingbox_element_stresses(p0, p1, d0, d1, sec, e, E, G, xi, s_foreaft):
    """dict of stress components of element e at section xi; sec: dict of per-element arrays"""
    x, y, z = _triad(p1 - p0)
    L = float(np.sqrt((p1 - p0) @ (p1 - p0)))
    u0 = np.array([x @ d0[:3], y @ d0[:3], z @ d0[:3]])
    r0 = np.array([x @ d0[3:], y @ d0[3:], z @ d0[3:]])
    u1 = np.array([x @ d1[:3], y @ d1[:3], z @ d1[:3]])
    r1 = np.array([x @ d1[3:], y @ d1[3:], z @ d1[3:]])
    eps = (u1[0] - u0[0]) / L
    phi = (r1[0] - r0[0]) / L
    # v' = +theta_z ; w' = -theta_y
    vdd = hermite_dd(u0[1], r0[2], u1[1], r1[2], L, xi)
    vddd = hermite_ddd(u0[1], r0[2], u1[1], r1[2], L)
    wdd = hermite_dd(u0[2], -r0[1], u1[2], -r1[1], L, xi)
    t = sec["spar_thickness"][e]
    out = dict(
        axial=E * eps,
        top=E * vdd * sec["htop"][e],
        bottom=-E * vdd * sec["hbottom"][e],
        front=s_foreaft * E * wdd * sec["hfront"][e],
        rear=-s_foreaft * E * wdd * sec["hrear"][e],
        torsion=G * sec["J"][e] * phi / (2.0 * t * sec["A_enc"][e]),
        vshear=-E * vddd * sec["Qz"][e] / (2.0 * t),
    )
    return out


def wingbox_vonmises(nodes, disp, sec, E, G, tssf=1.0, xi=1.0, s_foreaft=-1.0):
    nodes = np.asarray(nodes, float)
    disp = np.asarray(disp, float)
    n = nodes.shape[0] - 1
    vm = np.zeros((n, 4))
    for e in range(n):
        s = wingbox_element_stresses(nodes[e], nodes[e + 1], disp[e], disp[e + 1], sec, e, E, G, xi, s_foreaft)
        vm[e, 0] = np.sqrt((s["top"] + s["rear"] + s["axial"]) ** 2 + 3 * s["torsion"] ** 2) / tssf
        vm[e, 1] = np.sqrt((s["bottom"] + s["front"] + s["axial"]) ** 2 + 3 * s["torsion"] ** 2)
        vm[e, 2] = np.sqrt((s["front"] + s["axial"]) ** 2 + 3 * (s["torsion"] - s["vshear"]) ** 2)
        vm[e, 3] = np.sqrt((s["rear"] + s["axial"]) ** 2 + 3 * (s["torsion"] + s["vshear"]) ** 2) / tssf
    return vm


def rigid_field(nodes, t, theta, r0):
    nodes = np.asarray(nodes, float)
    d = np.zeros((nodes.shape[0], 6))
    d[:, :3] = np.asarray(t, float) + np.cross(np.asarray(theta, float), nodes - np.asarray(r0, float))
    d[:, 3:] = np.asarray(theta, float)
    return d


def strain_mode_field(nodes, eps, kvec_perp, phi):
    """exact small-displacement field of a *straight* beam (collinear nodes) with constant axial strain eps, constant
    curvature vector kvec_perp (normal to the axis; rotation rate d theta/ds) and constant twist rate phi.
    theta(s) = (phi x + kvec) s ;  u(s) = eps s x + (kvec cross x) s^2 / 2"""
    nodes = np.asarray(nodes, float)
    ax = nodes[-1] - nodes[0]
    x = ax / np.sqrt(ax @ ax)
    s = (nodes - nodes[0]) @ x
    k = np.asarray(kvec_perp, float)
    k = k - (k @ x) * x
    d = np.zeros((nodes.shape[0], 6))
    d[:, 3:] = s[:, None] * (phi * x + k)[None, :]
    d[:, :3] = eps * s[:, None] * x[None, :] + 0.5 * (s ** 2)[:, None] * np.cross(k, x)[None, :]
    return d, x, k


# ----------------------------------------------------------------------------------------------------------------
# C16


def element_lengths(nodes):
    d = np.asarray(nodes, float)[1:] - np.asarray(nodes, float)[:-1]
    return np.sqrt(np.sum(d * d, axis=1))


def midpoints(nodes):
    nodes = np.asarray(nodes, float)
    return 0.5 * (nodes[1:] + nodes[:-1])


def nodal_resultant(nodes, loads, about):
    """total force and total moment about `about` of nodal loads (ny, 6) = forces and couples applied at the nodes"""
    nodes = np.asarray(nodes, float)
    loads = np.asarray(loads, float)
    F = loads[:, :3].sum(axis=0)
    M = (np.cross(nodes - np.asarray(about, float), loads[:, :3]) + loads[:, 3:]).sum(axis=0)
    return F, M


def point_resultant(points, forces, about):
    points = np.atleast_2d(np.asarray(points, float))
    forces = np.atleast_2d(np.asarray(forces, float))
    return forces.sum(axis=0), np.cross(points - np.asarray(about, float), forces).sum(axis=0)
