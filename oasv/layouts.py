"""Constructed multi-surface layouts that satisfy the VLM non-degeneracy precondition by construction.

A configuration descriptor is
    {"surfaces": [ {"mesh": <mesh descriptor>, "place": {"mode": "behind"|"beside", "gap_x", "gap_y", "gap_z", "dir"}} ...]}
Surface 0 is placed as its mesh descriptor says; every further surface is shifted so that none of its points lies
inside the band swept by the wakes (trailing along (cos a, 0, sin a)) of the surfaces before it, nor overlaps them."""
import numpy as np

from .meshes import build_mesh


def place_surfaces(descs, alpha_deg):
    """-> list of meshes"""
    meshes = []
    ta = np.tan(np.radians(alpha_deg))
    for k, sd in enumerate(descs):
        m = build_mesh(sd["mesh"])
        if k > 0:
            pl = sd.get("place", {})
            mode = pl.get("mode", "behind")
            cmax = max(float(np.max(p[-1, :, 0] - p[0, :, 0])) for p in meshes + [m])
            margin = 0.15 * cmax
            xmax_prev = max(float(p[:, :, 0].max()) for p in meshes)
            if mode == "beside":
                ymax_prev = max(float(p[:, :, 1].max()) for p in meshes)
                m = m + np.array([0.0, ymax_prev + margin + pl.get("gap_y", 0.5) - float(m[:, :, 1].min()), 0.0])
                m = m + np.array([pl.get("gap_x", 0.0), 0.0, pl.get("gap_z", 0.0) * pl.get("dir", 1)])
            else:
                m = m + np.array([xmax_prev + margin + pl.get("gap_x", 1.0) - float(m[:, :, 0].min()), 0.0, 0.0])
                lo, hi = np.inf, -np.inf
                for p in meshes:
                    t = (float(m[:, :, 0].max()) - float(p[:, :, 0].min())) * ta
                    lo = min(lo, float(p[:, :, 2].min()) + min(0.0, t))
                    hi = max(hi, float(p[:, :, 2].max()) + max(0.0, t))
                if pl.get("dir", 1) >= 0:
                    dz = hi + margin + pl.get("gap_z", 0.5) - float(m[:, :, 2].min())
                else:
                    dz = lo - margin - pl.get("gap_z", 0.5) - float(m[:, :, 2].max())
                m = m + np.array([0.0, 0.0, dz])
        meshes.append(np.ascontiguousarray(m))
    return meshes


def symmetry_of(mesh_desc):
    return mesh_desc["kind"] in ("left", "right")
