"""Builders of OpenMDAO problems around the public OpenAeroStruct groups (descriptor -> Problem)."""
import numpy as np
import openmdao.api as om


def aero_surface(name, mesh, symmetry, **kw):
    s = {
        "name": name,
        "symmetry": bool(symmetry),
        "S_ref_type": "wetted",
        "mesh": np.array(mesh, dtype=float),
        "CL0": 0.0,
        "CD0": 0.0,
        "k_lam": 0.05,
        "t_over_c_cp": np.array([0.12]),
        "c_max_t": 0.303,
        "with_viscous": False,
        "with_wave": False,
    }
    s.update(kw)
    return s


def aero_direct(surfaces, flow, compressible=False, height=None, t_over_c=None, setup=True):
    """AeroPoint fed directly with meshes (no Geometry group).  flow: dict alpha,beta,v,rho,Mach,re[,omega,cg]"""
    from openaerostruct.aerodynamics.aero_groups import AeroPoint

    prob = om.Problem(reports=False)
    ivc = om.IndepVarComp()
    ivc.add_output("v", val=flow.get("v", 100.0), units="m/s")
    ivc.add_output("alpha", val=flow.get("alpha", 5.0), units="deg")
    ivc.add_output("beta", val=flow.get("beta", 0.0), units="deg")
    ivc.add_output("Mach_number", val=flow.get("Mach", 0.3))
    ivc.add_output("re", val=flow.get("re", 1e6), units="1/m")
    ivc.add_output("rho", val=flow.get("rho", 1.0), units="kg/m**3")
    ivc.add_output("cg", val=np.array(flow.get("cg", [0.0, 0.0, 0.0]), float), units="m")
    rotational = "omega" in flow
    if height is not None:
        ivc.add_output("height_agl", val=height, units="m")
    if rotational:
        ivc.add_output("omega", val=np.array(flow["omega"], float), units="rad/s")
    for i, s in enumerate(surfaces):
        m = s["mesh"]
        ivc.add_output(s["name"] + "_mesh", val=m, units="m")
        toc = 0.12 if t_over_c is None else t_over_c[i]
        ivc.add_output(s["name"] + "_toc", val=toc * np.ones(m.shape[1] - 1))
    prob.model.add_subsystem("prob_vars", ivc, promotes=["*"])
    prom = ["v", "alpha", "beta", "Mach_number", "re", "rho", "cg"]
    if height is not None:
        prom.append("height_agl")
    if rotational:
        prom.append("omega")
    prob.model.add_subsystem(
        "aero_point_0", AeroPoint(surfaces=surfaces, compressible=compressible, rotational=rotational), promotes_inputs=prom
    )
    for s in surfaces:
        n = s["name"]
        prob.model.connect(n + "_mesh", "aero_point_0." + n + ".def_mesh")
        prob.model.connect(n + "_mesh", "aero_point_0.aero_states." + n + "_def_mesh")
        prob.model.connect(n + "_toc", "aero_point_0." + n + "_perf.t_over_c")
    if setup:
        prob.setup()
    return prob


def set_flow(prob, flow):
    for k, n in (("v", "v"), ("alpha", "alpha"), ("beta", "beta"), ("Mach", "Mach_number"), ("re", "re"), ("rho", "rho")):
        if k in flow:
            prob.set_val(n, flow[k])
    if "cg" in flow:
        prob.set_val("cg", np.array(flow["cg"], float))
    if "omega" in flow:
        prob.set_val("omega", np.array(flow["omega"], float))


def aero_outputs(prob, surfaces, point="aero_point_0"):
    out = {}
    for s in surfaces:
        n = s["name"]
        out[n + "_sec_forces"] = prob.get_val("%s.aero_states.%s_sec_forces" % (point, n)).copy()
        for k in ("CL", "CD", "CDi", "CDv", "CDw", "L", "D"):
            out[n + "_" + k] = prob.get_val("%s.%s_perf.%s" % (point, n, k)).copy()
        out[n + "_S_ref"] = prob.get_val("%s.%s.S_ref" % (point, n)).copy()
    for k in ("CL", "CD", "CM"):
        out[k] = prob.get_val("%s.%s" % (point, k)).copy()
    out["circulations"] = prob.get_val(point + ".aero_states.circulations").copy()
    return out
