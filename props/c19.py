"""C19  Composition of surfaces and wrappers does not change the physics (DESIGN.md section 4, C19).

Sub-checks
    permutation      same surfaces listed in a drawn different order -> identical per-surface and total results
    split_surfaces   a full-span surface cut at drawn interior columns into 2-3 abutting surfaces -> same forces/totals
    split_sections   a surface cut into 2-4 sections fed through MultiSecGeometry (user meshes) -> same mesh/forces/totals
    far_surface      an extra surface 10^[1,6] chords away -> influence bounded by K*S_far/d^2 at two offsets a decade apart
    mphys_chain      DemuxSurfaceMesh -> AeroSolverGroup -> MuxSurfaceForces + AeroFuncsGroup(write_solution=False),
                     composed by hand (the builder's groups minus mphys' DistributedConverter, which needs MPI), vs the
                     native AeroPoint; mux/demux layout, inverse permutations, fwd/rev matrix-free products
"""
import numpy as np
from hypothesis import strategies as st

from oasv import strategies as S
from oasv.core import Outcome, Sub
from oasv.layouts import place_surfaces, symmetry_of
from oasv.meshes import build_mesh
from oasv.models import aero_direct, aero_surface

RULE = (
    "Hypothesis draws 1-4 lifting surfaces (symmetric left/right halves with the root on y=0, mirror-symmetric and "
    "asymmetric full span; nx 2-4, ny/half 2-4(5); sweep, taper, dihedral, twist, camber, winglet, spacing, noise; a drawn "
    "fraction of the lists has surfaces of EQUAL array shape but different geometry), placed by construction outside each "
    "other's wakes, flow (alpha, beta, v, rho, Mach, Re, optional rotation rates), compressible on/off, viscous drag "
    "on/off.  permutation: a drawn non-identity permutation of the list; split_surfaces: full-span surface cut at 1-2 "
    "drawn interior columns into abutting non-symmetric surfaces that share the edge column; split_sections: planar-chord "
    "surface cut into 2-4 sections handed to MultiSecGeometry as user meshes (shift_uni_mesh on/off); far_surface: extra "
    "surface displaced by 10^e reference chords, e in [1,6], sideways/vertically/downstream; mphys_chain: hand-composed "
    "MPhys groups vs AeroPoint.  non-trivial = at least 2 surfaces (pieces) AND |sum F| > 1e-9 q S AND the composition "
    "actually differs (permutation != identity, >= 2 pieces, far surface present); distinct = descriptor digest."
)
ASSUMPTIONS = [
    "tolerance 1e-9 relative to the largest entry of each compared array (measured floor: 1e-13 permutation, 1e-14 split, "
    "1e-15 wrapper)",
    "CM is normalised by the FIRST listed surface's MAC (documented): compared as CM*MAC_first, MAC_first recomputed from "
    "the first surface's chords/widths/S_ref (formula of the property's documentation: sum(c_panel^2 w)/S, x2 if symmetric)",
    "non-degeneracy by construction (oasv/layouts.py); symmetric surfaces keep their root on y=0 (off-plane symmetric "
    "surfaces are C04's known finding), so only full-span (symmetry False) surfaces are split into abutting surfaces",
    "wave drag is a function of surface-averaged quantities (not additive) -> with_wave False in the split checks; viscous "
    "drag is a panel sum and is kept",
    "split_sections: section meshes have chords exactly along x (no twist/camber/noise) because the per-section Geometry "
    "group must be a no-op at default design variables - that is C13's property and its known findings (KF-C13-rotate) "
    "are excluded here by construction; non-symmetric sections have odd ny (documented requirement of the geometry "
    "transformations); no t_over_c_cp on multi-section surfaces (KF-C14-unif-toc is handled under C14)",
    "far_surface bound: max|dF_panel| <= K * q * S_panel_max * S_far / d^2 with K = 1, d the minimum separation; "
    "the statement's 'vanishing' is "
    "expressed by this bound (it gives < 1e-8 S_far/c^2 relative at 1e4 chords), not by a fixed threshold",
    "MPhys: mphys.core is importable but DistributedConverter needs an MPI communicator, so AeroCouplingGroup/AeroBuilder "
    "cannot be set up; the chain DemuxSurfaceMesh -> AeroSolverGroup -> MuxSurfaceForces -> AeroFuncsGroup is promoted "
    "into one group by hand exactly as AeroCouplingGroup + the scenario do; flattened layout = concatenation of the "
    "C-ordered (nx, ny, 3) arrays in list order (AeroMesh's documented layout)",
]

TOL = 1e-9


# ---------------------------------------------------------------------------------------------------------------------
# strategies


@st.composite
def surface_list(draw, min_surf=2, max_surf=4, kinds=("left", "right", "full", "asym"), max_panels=60, nyh=(2, 4)):
    n = draw(st.integers(min_surf, max_surf))
    same_shape = draw(st.sampled_from([False, True, False]))
    surfs = []
    panels = 0
    for k in range(n):
        md = draw(S.mesh(kinds=kinds, nx=(2, 4), nyh=nyh))
        if same_shape and k > 0:
            m0 = surfs[0]["mesh"]
            md["nx"], md["nyh"] = m0["nx"], m0["nyh"]
            if (md["kind"] in ("left", "right")) != (m0["kind"] in ("left", "right")):
                if md["kind"] == "asym":
                    md.pop("right", None)
                md["kind"] = m0["kind"]
                if md["kind"] == "asym":
                    md["right"] = dict(md["side"], sweep=-md["side"]["sweep"])
        npan = (md["nx"] - 1) * ((md["nyh"] - 1) * (1 if md["kind"] in ("left", "right") else 2))
        if k >= min_surf and panels + npan > max_panels:
            break
        panels += npan
        sd = {"mesh": md, "viscous": draw(st.booleans()), "toc": draw(S.fl(0.06, 0.18, 0.12))}
        if k > 0:
            pl = draw(S.place())
            all_full = all(s["mesh"]["kind"] in ("full", "asym") for s in surfs) and md["kind"] in ("full", "asym")
            if all_full and draw(st.booleans()):
                pl["mode"] = "beside"
            sd["place"] = pl
        surfs.append(sd)
    return surfs, same_shape


@st.composite
def perm_config(draw):
    surfs, same = draw(surface_list())
    n = len(surfs)
    perm = draw(st.permutations(list(range(n))))
    if list(perm) == list(range(n)):
        perm = list(perm[1:]) + [perm[0]]
    fl = draw(S.flow(beta=True, rot=True))
    return dict(surfaces=surfs, same_shape=same, perm=list(perm), flow=fl, compressible=draw(st.booleans()))


@st.composite
def split_config(draw):
    wing = draw(S.mesh(kinds=("full", "asym"), nx=(2, 4), nyh=(3, 5)))
    ny = 2 * wing["nyh"] - 1
    ncut = draw(st.sampled_from([1, 1, 2]))
    cuts = sorted(draw(st.lists(st.integers(1, ny - 2), min_size=ncut, max_size=ncut, unique=True)))
    surfs = [{"mesh": wing, "viscous": draw(st.booleans()), "toc": draw(S.fl(0.06, 0.18, 0.12))}]
    nother = draw(st.sampled_from([0, 1, 1]))
    for _ in range(nother):
        md = draw(S.mesh(nx=(2, 3), nyh=(2, 3)))
        surfs.append({"mesh": md, "viscous": draw(st.booleans()), "toc": 0.12, "place": draw(S.place())})
    wing_pos = draw(st.integers(0, len(surfs) - 1))
    fl = draw(S.flow(beta=True, rot=True))
    return dict(surfaces=surfs, cuts=cuts, wing_pos=wing_pos, flow=fl, compressible=draw(st.booleans()))


@st.composite
def section_config(draw):
    kind = draw(st.sampled_from(["left", "full", "right", "asym"]))
    md = draw(S.mesh(kinds=(kind,), nx=(2, 4), nyh=(3, 6), noise=False, max_twist=0.0, max_camber=0.0))
    md["root_twist"] = 0.0
    md["side"]["twist"] = 0.0
    md["side"]["camber"] = 0.0
    if "right" in md:
        md["right"]["twist"] = 0.0
        md["right"]["camber"] = 0.0
    sym = kind in ("left", "right")
    ny = md["nyh"] if sym else 2 * md["nyh"] - 1
    if sym:
        cand = list(range(1, ny - 1))
    else:
        cand = list(range(2, ny - 2, 2))  # every non-symmetric section keeps an odd number of columns (>= 3)
    nmax = min(3, len(cand))
    ncut = draw(st.integers(1, nmax))
    cuts = sorted(draw(st.lists(st.sampled_from(cand), min_size=ncut, max_size=ncut, unique=True)))
    fl = draw(S.flow(beta=not sym, rot=False))
    if fl["alpha"] == 0.0:
        fl["alpha"] = 3.0  # chords are flat by construction: zero incidence would give zero force (trivial case)
    return dict(mesh=md, cuts=cuts, shift=draw(st.booleans()), viscous=draw(st.booleans()), flow=fl,
                compressible=draw(st.booleans()), joining=draw(st.booleans()))


@st.composite
def far_config(draw):
    surfs, _ = draw(surface_list(min_surf=1, max_surf=2, max_panels=30))
    far = draw(S.mesh(nx=(2, 3), nyh=(2, 4)))
    sym_far = far["kind"] in ("left", "right")
    # direction in the y-z plane (symmetric far surfaces must stay on y=0 -> vertical only), optional downstream component
    if sym_far:
        theta = draw(st.sampled_from([90.0, -90.0]))
    else:
        theta = draw(st.one_of(st.sampled_from([90.0, -90.0, 0.0, 180.0]), S.fl(-180.0, 180.0)))
    return dict(surfaces=surfs, far=far, exponent=draw(S.fl(1.0, 5.0, 1.0, 2.0, 3.0, 4.0, 5.0)), theta=theta,
                downstream=draw(S.fl(0.0, 1.0, 0.0)), flow=draw(S.flow(beta=False, rot=False)),
                far_first=draw(st.booleans()), compressible=draw(st.booleans()))


@st.composite
def mphys_config(draw):
    surfs, same = draw(surface_list(min_surf=1, max_surf=3, max_panels=40))
    fl = draw(S.flow(beta=True, rot=False))
    return dict(surfaces=surfs, same_shape=same, flow=fl, compressible=draw(st.booleans()),
                seed=draw(st.integers(0, 10 ** 6)), totals=draw(st.sampled_from([False, False, True])))


# ---------------------------------------------------------------------------------------------------------------------
# helpers

P = "aero_point_0."


def _surfaces(descs, meshes, names=None, wave=False):
    out = []
    for k, (sd, m) in enumerate(zip(descs, meshes)):
        out.append(aero_surface(names[k] if names else "s%d" % k, m, symmetry_of(sd["mesh"]),
                                with_viscous=bool(sd.get("viscous", False)), with_wave=wave))
    return out


def _run(surfaces, flow, compressible, toc):
    prob = aero_direct(surfaces, flow, compressible=compressible, t_over_c=toc)
    prob.run_model()
    return prob


def _mac(prob, name, symmetry):
    """documented normalisation length of CM: MAC of a surface = sum(panel_chord^2 * width) / S_ref (x2 when symmetric)"""
    c = prob.get_val(P + name + ".chords")
    w = prob.get_val(P + name + ".widths")
    s = prob.get_val(P + name + ".S_ref")[0]
    mac = float(np.sum((0.5 * (c[1:] + c[:-1])) ** 2 * w) / s)
    return 2.0 * mac if symmetry else mac


def _per_surface(prob, name):
    d = {"sec_forces": prob.get_val(P + "aero_states.%s_sec_forces" % name).copy(),
         "mesh_point_forces": prob.get_val(P + "aero_states.%s_mesh_point_forces" % name).copy()}
    for k in ("CL", "CD", "CDi", "CDv", "L", "D"):
        d[k] = prob.get_val(P + "%s_perf.%s" % (name, k)).copy()
    d["S_ref"] = prob.get_val(P + name + ".S_ref").copy()
    return d


def _totals(prob):
    d = {k: prob.get_val(P + k).copy() for k in ("CL", "CD", "CM")}
    d["L"] = prob.get_val(P + "total_perf.L").copy()
    d["D"] = prob.get_val(P + "total_perf.D").copy()
    d["M"] = prob.get_val(P + "total_perf.moment.M").copy()
    d["S_ref_total"] = prob.get_val(P + "total_perf.S_ref_total").copy()
    return d


def _q(fl):
    return 0.5 * fl["rho"] * fl["v"] ** 2


def _common_labels(out, desc, descs):
    out.label("nsurf=%d" % len(descs))
    for kd in sorted(set(s["mesh"]["kind"] for s in descs)):
        out.label("kind=" + kd)
    out.label("compressible" if desc.get("compressible") else "incompressible")
    if any(s.get("viscous") for s in descs):
        out.label("viscous")
    fl = desc["flow"]
    if fl["beta"] != 0:
        out.label("sideslip")
    if "omega" in fl:
        out.label("rotation")


# ---------------------------------------------------------------------------------------------------------------------
# 1  permutation of the surface list


def verdict_perm(desc):
    out = Outcome()
    fl = desc["flow"]
    descs = desc["surfaces"]
    n = len(descs)
    meshes = place_surfaces(descs, fl["alpha"])
    surfs = _surfaces(descs, meshes)
    toc = [sd["toc"] for sd in descs]
    perm = [int(i) for i in desc["perm"]]
    comp = bool(desc["compressible"])
    pa = _run(surfs, fl, comp, toc)
    # fresh dictionaries (no shared objects) for the permuted problem
    surfs_b = _surfaces(descs, meshes)
    pb = _run([surfs_b[i] for i in perm], fl, comp, [toc[i] for i in perm])

    q = _q(fl)
    fscale = max(max(float(np.max(np.abs(pa.get_val(P + "aero_states.s%d_sec_forces" % k)))) for k in range(n)), 1e-300)
    Sa = [_per_surface(pa, "s%d" % k) for k in range(n)]
    Sb = [_per_surface(pb, "s%d" % k) for k in range(n)]
    cscale = max(max(abs(float(s["CL"][0])) for s in Sa), max(abs(float(s["CD"][0])) for s in Sa), 1e-300)
    for k in range(n):
        out.close("perm/sec_forces", Sb[k]["sec_forces"], Sa[k]["sec_forces"], rtol=TOL, scale=fscale)
        out.close("perm/mesh_point_forces", Sb[k]["mesh_point_forces"], Sa[k]["mesh_point_forces"], rtol=TOL, scale=fscale)
        for key in ("CL", "CD", "CDi", "CDv"):
            out.close("perm/surface_" + key, Sb[k][key], Sa[k][key], rtol=TOL, scale=cscale)
        for key in ("L", "D"):
            out.close("perm/surface_" + key, Sb[k][key], Sa[k][key], rtol=TOL,
                      scale=max(abs(float(Sa[k]["L"][0])), abs(float(Sa[k]["D"][0])), fscale))
        out.close("perm/S_ref", Sb[k]["S_ref"], Sa[k]["S_ref"], rtol=1e-12)
    Ta, Tb = _totals(pa), _totals(pb)
    LD = max(abs(float(Ta["L"][0])), abs(float(Ta["D"][0])), fscale)
    for key in ("L", "D"):
        out.close("perm/total_" + key, Tb[key], Ta[key], rtol=TOL, scale=LD)
    for key in ("CL", "CD"):
        out.close("perm/total_" + key, Tb[key], Ta[key], rtol=TOL, scale=max(abs(float(Ta["CL"][0])), abs(float(Ta["CD"][0]))))
    # moment scale: total force x largest lever arm
    cg = np.array(fl.get("cg", [0.0, 0.0, 0.0]), float)
    lever = max(float(np.max(np.abs(m.reshape(-1, 3) - cg))) for m in meshes)
    fsum = sum(float(np.sum(np.abs(s["sec_forces"]))) for s in Sa)
    mscale = max(fsum * lever, 1e-300)
    out.close("perm/total_M", Tb["M"], Ta["M"], rtol=TOL, scale=mscale)
    out.close("perm/S_ref_total", Tb["S_ref_total"], Ta["S_ref_total"], rtol=1e-12)
    mac_a = _mac(pa, "s0", surfs[0]["symmetry"])
    mac_b = _mac(pb, "s%d" % perm[0], surfs[perm[0]]["symmetry"])
    qS = q * float(Ta["S_ref_total"][0])
    out.close("perm/CM_times_MAC_first", Tb["CM"] * mac_b, Ta["CM"] * mac_a, rtol=TOL, scale=mscale / qS)
    # the documented normalisation itself: CM = M / (q S_total MAC_first)
    out.close("perm/CM_definition", Tb["CM"], Tb["M"] / (qS * mac_b), rtol=TOL, scale=mscale / (qS * mac_b))
    # circulations: same values, blocks reordered
    sizes = [(m.shape[0] - 1) * (m.shape[1] - 1) for m in meshes]
    offs_a = np.concatenate([[0], np.cumsum(sizes)])
    ca = pa.get_val(P + "circulations")
    cb = pb.get_val(P + "circulations")
    pos = 0
    gs = max(float(np.max(np.abs(ca))), 1e-300)
    for i in perm:
        out.close("perm/circulations", cb[pos:pos + sizes[i]], ca[offs_a[i]:offs_a[i] + sizes[i]], rtol=TOL, scale=gs)
        pos += sizes[i]

    _common_labels(out, desc, descs)
    if desc.get("same_shape"):
        out.label("equal_shapes")
    if perm[0] != 0:
        out.label("first_surface_changed")
    Ftot = np.abs(sum(s["sec_forces"].sum(axis=(0, 1)) for s in Sa)).max()
    out.nontrivial = bool(n >= 2 and perm != list(range(n)) and Ftot > 1e-9 * qS)
    return out


# ---------------------------------------------------------------------------------------------------------------------
# 2  split a full-span surface into abutting surfaces


def verdict_split(desc):
    out = Outcome()
    fl = desc["flow"]
    descs = desc["surfaces"]
    wp = int(desc["wing_pos"])
    comp = bool(desc["compressible"])
    # surface 0 of the descriptor is the wing (placed first, others placed relative to it)
    meshes = place_surfaces(descs, fl["alpha"])
    names = ["wing"] + ["o%d" % k for k in range(1, len(descs))]
    toc = [sd["toc"] for sd in descs]
    order = list(range(1, len(descs)))
    order.insert(min(wp, len(order)), 0)
    base = _surfaces(descs, meshes, names)
    pa = _run([base[i] for i in order], fl, comp, [toc[i] for i in order])

    wing = meshes[0]
    ny = wing.shape[1]
    idx = [0] + [int(c) for c in desc["cuts"]] + [ny - 1]
    pieces = [wing[:, idx[i]:idx[i + 1] + 1, :].copy() for i in range(len(idx) - 1)]
    base2 = _surfaces(descs, meshes, names)
    surfs_b, toc_b = [], []
    for i in order:
        if i == 0:
            for j, pm in enumerate(pieces):
                surfs_b.append(aero_surface("w%d" % j, pm, False, with_viscous=bool(descs[0].get("viscous", False))))
                toc_b.append(toc[0])
        else:
            surfs_b.append(base2[i])
            toc_b.append(toc[i])
    pb = _run(surfs_b, fl, comp, toc_b)

    Fa = pa.get_val(P + "aero_states.wing_sec_forces")
    Fb = np.concatenate([pb.get_val(P + "aero_states.w%d_sec_forces" % j) for j in range(len(pieces))], axis=1)
    fscale = max(float(np.max(np.abs(Fa))), 1e-300)
    out.close("split/sec_forces", Fb, Fa, rtol=TOL, scale=fscale)
    nxm = wing.shape[0] - 1
    ga = pa.get_val(P + "circulations")
    gb = pb.get_val(P + "circulations")

    def blocks(prob, surfs):
        res, pos = {}, 0
        g = prob.get_val(P + "circulations")
        for s in surfs:
            sz = (s["mesh"].shape[0] - 1) * (s["mesh"].shape[1] - 1)
            res[s["name"]] = g[pos:pos + sz].reshape(s["mesh"].shape[0] - 1, s["mesh"].shape[1] - 1)
            pos += sz
        return res

    ba = blocks(pa, [base[i] for i in order])
    bb = blocks(pb, surfs_b)
    gs = max(float(np.max(np.abs(ga))), 1e-300)
    out.close("split/circulations", np.concatenate([bb["w%d" % j] for j in range(len(pieces))], axis=1), ba["wing"],
              rtol=TOL, scale=gs)
    for i in range(1, len(descs)):
        out.close("split/other_sec_forces", pb.get_val(P + "aero_states.o%d_sec_forces" % i),
                  pa.get_val(P + "aero_states.o%d_sec_forces" % i), rtol=TOL, scale=fscale)
        out.close("split/other_circulations", bb["o%d" % i], ba["o%d" % i], rtol=TOL, scale=gs)
    # nodal forces: interior shared columns add up
    Na = pa.get_val(P + "aero_states.wing_mesh_point_forces")
    Nb = np.zeros_like(Na)
    for j in range(len(pieces)):
        Nb[:, idx[j]:idx[j + 1] + 1, :] += pb.get_val(P + "aero_states.w%d_mesh_point_forces" % j)
    out.close("split/mesh_point_forces", Nb, Na, rtol=TOL, scale=fscale)
    Ta, Tb = _totals(pa), _totals(pb)
    q = _q(fl)
    qS = q * float(Ta["S_ref_total"][0])
    LD = max(abs(float(Ta["L"][0])), abs(float(Ta["D"][0])), fscale)
    out.close("split/S_ref_total", Tb["S_ref_total"], Ta["S_ref_total"], rtol=1e-12)
    Sw = sum(float(pb.get_val(P + "w%d.S_ref" % j)[0]) for j in range(len(pieces)))
    out.close("split/S_ref_pieces", Sw, pa.get_val(P + "wing.S_ref"), rtol=1e-12)
    for key in ("L", "D"):
        out.close("split/total_" + key, Tb[key], Ta[key], rtol=TOL, scale=LD)
        # per-surface lift/drag of the pieces add up to the wing's
        out.close("split/wing_" + key, sum(pb.get_val(P + "w%d_perf.%s" % (j, key)) for j in range(len(pieces))),
                  pa.get_val(P + "wing_perf." + key), rtol=TOL, scale=LD)
    for key in ("CL", "CD"):
        out.close("split/total_" + key, Tb[key], Ta[key], rtol=TOL, scale=max(abs(float(Ta["CL"][0])), abs(float(Ta["CD"][0]))))
    cg = np.array(fl.get("cg", [0.0, 0.0, 0.0]), float)
    lever = max(float(np.max(np.abs(m.reshape(-1, 3) - cg))) for m in meshes)
    fsum = sum(float(np.sum(np.abs(pa.get_val(P + "aero_states.%s_sec_forces" % nm)))) for nm in names)
    mscale = max(fsum * lever, 1e-300)
    out.close("split/total_M", Tb["M"], Ta["M"], rtol=TOL, scale=mscale)
    first_a = [base[i] for i in order][0]
    first_b = surfs_b[0]
    out.close("split/CM_times_MAC_first", Tb["CM"] * _mac(pb, first_b["name"], first_b["symmetry"]),
              Ta["CM"] * _mac(pa, first_a["name"], first_a["symmetry"]), rtol=TOL, scale=mscale / qS)

    _common_labels(out, desc, descs)
    out.label("pieces=%d" % len(pieces))
    if wp == 0 and len(descs) > 1:
        out.label("wing_first")
    elif len(descs) > 1:
        out.label("wing_not_first")
    if any((idx[i + 1] - idx[i] + 1) % 2 == 0 for i in range(len(idx) - 1)):
        out.label("even_ny_piece")
    if any(c == (ny - 1) // 2 for c in desc["cuts"]):
        out.label("cut_at_centre")
    Ftot = float(np.abs(Fa.sum(axis=(0, 1))).max())
    out.nontrivial = bool(len(pieces) >= 2 and Ftot > 1e-9 * qS)
    return out


# ---------------------------------------------------------------------------------------------------------------------
# 3  split into sections through MultiSecGeometry


def verdict_sections(desc):
    import openmdao.api as om
    from openaerostruct.aerodynamics.aero_groups import AeroPoint
    from openaerostruct.geometry.geometry_group import MultiSecGeometry, build_sections
    from openaerostruct.geometry.geometry_unification import unify_mesh

    out = Outcome()
    fl = desc["flow"]
    md = desc["mesh"]
    sym = symmetry_of(md)
    comp = bool(desc["compressible"])
    full = build_mesh(md)
    ny = full.shape[1]
    idx = [0] + [int(c) for c in desc["cuts"]] + [ny - 1]
    secs = [full[:, idx[i]:idx[i + 1] + 1, :].copy() for i in range(len(idx) - 1)]
    n = len(secs)
    shift = bool(desc["shift"])
    visc = bool(desc["viscous"])
    ms = {"name": "wing", "is_multi_section": True, "num_sections": n, "sec_name": ["sec%d" % i for i in range(n)],
          "symmetry": sym, "S_ref_type": "wetted", "meshes": secs, "CL0": 0.0, "CD0": 0.0, "k_lam": 0.05, "c_max_t": 0.303,
          "with_viscous": visc, "with_wave": False, "groundplane": False}
    prob = om.Problem(reports=False)
    ivc = om.IndepVarComp()
    ivc.add_output("v", val=fl["v"], units="m/s")
    ivc.add_output("alpha", val=fl["alpha"], units="deg")
    ivc.add_output("beta", val=fl["beta"], units="deg")
    ivc.add_output("Mach_number", val=fl["Mach"])
    ivc.add_output("re", val=fl["re"], units="1/m")
    ivc.add_output("rho", val=fl["rho"], units="kg/m**3")
    ivc.add_output("cg", val=np.zeros(3), units="m")
    ivc.add_output("toc", val=0.12 * np.ones(ny - 1))
    prob.model.add_subsystem("prob_vars", ivc, promotes=["*"])
    kw = dict(surface=ms, shift_uni_mesh=shift)
    if desc.get("joining"):
        kw.update(joining_comp=True, dim_constr=[np.array([1, 0, 0])] * n)
    prob.model.add_subsystem("wing", MultiSecGeometry(**kw))
    # documented recipe (docs/advanced_features multi-section): AeroPoint needs the unified mesh in surface["mesh"]
    ms["mesh"] = unify_mesh(build_sections(ms), shift)
    prob.model.add_subsystem("aero_point_0", AeroPoint(surfaces=[ms], compressible=comp),
                             promotes_inputs=["v", "alpha", "beta", "Mach_number", "re", "rho", "cg"])
    uni = "wing.wing_unification.wing_uni_mesh"
    prob.model.connect(uni, "aero_point_0.wing.def_mesh")
    prob.model.connect(uni, "aero_point_0.aero_states.wing_def_mesh")
    prob.model.connect("toc", "aero_point_0.wing_perf.t_over_c")
    prob.setup()
    prob.run_model()

    span = float(full[:, :, 1].max() - full[:, :, 1].min())
    out.close("sections/unify_mesh_function", ms["mesh"], full, rtol=1e-12, scale=span)
    out.close("sections/uni_mesh_output", prob.get_val(uni), full, rtol=1e-12, scale=span)
    if desc.get("joining"):
        sep = prob.get_val("wing.wing_joining.section_separation")
        out.le("sections/separation", float(np.max(np.abs(sep))), 1e-12 * span)

    single = aero_surface("wing", full, sym, with_viscous=visc)
    pa = _run([single], fl, comp, [0.12])
    Fa = pa.get_val(P + "aero_states.wing_sec_forces")
    fscale = max(float(np.max(np.abs(Fa))), 1e-300)
    out.close("sections/sec_forces", prob.get_val(P + "aero_states.wing_sec_forces"), Fa, rtol=TOL, scale=fscale)
    Ta, Tb = _totals(pa), _totals(prob)
    cs = max(abs(float(Ta["CL"][0])), abs(float(Ta["CD"][0])), 1e-300)
    for key in ("CL", "CD"):
        out.close("sections/total_" + key, Tb[key], Ta[key], rtol=TOL, scale=cs)
    lever = float(np.max(np.abs(full)))
    mscale = max(float(np.sum(np.abs(Fa))) * lever, 1e-300)
    out.close("sections/total_M", Tb["M"], Ta["M"], rtol=TOL, scale=mscale)
    qS = _q(fl) * float(Ta["S_ref_total"][0])
    out.close("sections/CM", Tb["CM"], Ta["CM"], rtol=TOL, scale=mscale / (qS * _mac(pa, "wing", sym)))
    out.close("sections/S_ref", Tb["S_ref_total"], Ta["S_ref_total"], rtol=1e-12)
    for key in ("CDv", "CDi"):
        out.close("sections/" + key, prob.get_val(P + "wing_perf." + key), pa.get_val(P + "wing_perf." + key), rtol=TOL, scale=cs)

    out.label("kind=" + md["kind"], "sections=%d" % n, "shift" if shift else "noshift")
    out.label("compressible" if comp else "incompressible")
    if visc:
        out.label("viscous")
    if desc.get("joining"):
        out.label("joining_comp")
    if len(set(s.shape[1] for s in secs)) > 1:
        out.label("unequal_section_ny")
    if md["side"]["dihedral"] != 0 or md["side"]["winglet"] > 0:
        out.label("nonplanar")
    out.nontrivial = bool(n >= 2 and float(np.abs(Fa.sum(axis=(0, 1))).max()) > 1e-9 * qS)
    return out


# ---------------------------------------------------------------------------------------------------------------------
# 4  far-away surface


FAR_K = 1.0


def verdict_far(desc):
    out = Outcome()
    fl = desc["flow"]
    descs = desc["surfaces"]
    comp = bool(desc["compressible"])
    meshes = place_surfaces(descs, fl["alpha"])
    nb = len(meshes)
    far0 = build_mesh(desc["far"])
    cref = max(float(np.max(m[-1, :, 0] - m[0, :, 0])) for m in meshes + [far0])
    th = np.radians(desc["theta"])
    # snap the direction so that symmetric far surfaces stay exactly on y = 0
    dy, dz = float(np.cos(th)), float(np.sin(th))
    if abs(dy) < 1e-12:
        dy = 0.0
    direction = np.array([desc["downstream"], dy, dz])
    centre = np.mean([m.reshape(-1, 3).mean(axis=0) for m in meshes], axis=0)
    if symmetry_of(desc["far"]):
        centre[1] = 0.0
    ext = max(float(np.max(np.abs(m.reshape(-1, 3) - centre))) for m in meshes) + float(np.max(np.abs(far0.reshape(-1, 3))))

    def build(d):
        shift = centre + direction * (d * cref + ext)
        if symmetry_of(desc["far"]):
            shift[1] = 0.0
        return far0 + shift

    toc = [sd["toc"] for sd in descs]
    base = _surfaces(descs, meshes)
    p0 = _run(base, fl, comp, toc)
    F0 = [p0.get_val(P + "aero_states.s%d_sec_forces" % k).copy() for k in range(nb)]
    q = _q(fl)
    Spanel = max(float(np.max(np.abs(f))) for f in F0)  # only for the floor
    # panel area scale of the base surfaces (largest panel) and the far surface's area
    S_base = [float(p0.get_val(P + "s%d.S_ref" % k)[0]) for k in range(nb)]
    npan = [(m.shape[0] - 1) * (m.shape[1] - 1) for m in meshes]
    Apanel = max(S_base[k] / npan[k] for k in range(nb)) * 4.0  # generous: largest panel <= 4 x mean panel

    infl = []
    e = float(desc["exponent"])
    for ee in (e, e + 1.0):
        d = 10.0 ** ee
        mfar = build(d)
        sfar = aero_surface("far", mfar, symmetry_of(desc["far"]))
        sb = _surfaces(descs, meshes)
        lst = ([sfar] + sb) if desc["far_first"] else (sb + [sfar])
        tl = ([0.12] + toc) if desc["far_first"] else (toc + [0.12])
        p1 = _run(lst, fl, comp, tl)
        S_far = float(p1.get_val(P + "far.S_ref")[0]) * (2.0 if symmetry_of(desc["far"]) else 1.0)
        dF = max(float(np.max(np.abs(p1.get_val(P + "aero_states.s%d_sec_forces" % k) - F0[k]))) for k in range(nb))
        dist = d * cref
        bound = FAR_K * q * Apanel * S_far / dist ** 2
        floor = 1e-11 * max(Spanel, q * Apanel)
        out.le("far/influence_bound", dF, bound + floor, msg="d=%.3g chords dF=%.3e bound=%.3e" % (d, dF, bound))
        # the far surface itself behaves as if alone
        palone = _run([aero_surface("far", mfar, symmetry_of(desc["far"]))], fl, comp, [0.12])
        Ff = palone.get_val(P + "aero_states.far_sec_forces")
        S_b = sum(S_base[k] * (2.0 if symmetry_of(descs[k]["mesh"]) else 1.0) for k in range(nb))
        nf = (mfar.shape[0] - 1) * (mfar.shape[1] - 1)
        Af = 4.0 * S_far / nf
        out.le("far/far_surface_alone", float(np.max(np.abs(p1.get_val(P + "aero_states.far_sec_forces") - Ff))),
               FAR_K * q * Af * S_b / dist ** 2 + 1e-7 * max(float(np.max(np.abs(Ff))), q * Af),
               msg="d=%.3g chords" % d)
        infl.append((dF, floor, dist + ext))
    # (no monotone-decay demand between the two offsets: "vanishing influence" is the K*S/d^2 bound above at both; bound-
    # vortex and wake contributions of opposite sign can cancel at the nearer offset - observed 2.7e-4 at 20 and 1.4e-4
    # at 110 chords, both far inside the bound)

    _common_labels(out, desc, descs)
    out.label("far_kind=" + desc["far"]["kind"], "far_first" if desc["far_first"] else "far_last")
    out.label("exp=%d" % int(e))
    if desc["downstream"] > 0:
        out.label("downstream_component")
    if dy != 0.0:
        out.label("sideways")
    Ftot = np.abs(sum(f.sum(axis=(0, 1)) for f in F0)).max()
    out.nontrivial = bool(Ftot > 1e-9 * q * sum(S_base))
    return out


# ---------------------------------------------------------------------------------------------------------------------
# 5  MPhys wrapper groups


class _Vec(dict):
    """minimal stand-in for an OpenMDAO vector in direct calls of compute_jacvec_product (supports `in`, [] and +=)"""


def verdict_mphys(desc):
    import openmdao.api as om
    from mphys.core import MPhysVariables as MV
    from openaerostruct.mphys.aero_funcs_group import AeroFuncsGroup
    from openaerostruct.mphys.aero_solver_group import AeroSolverGroup
    from openaerostruct.mphys.demux_surface_mesh import DemuxSurfaceMesh
    from openaerostruct.mphys.mux_surface_forces import MuxSurfaceForces
    from openaerostruct.mphys.utils import get_node_indices, get_number_of_nodes, get_src_indices

    out = Outcome()
    fl = desc["flow"]
    descs = desc["surfaces"]
    comp = bool(desc["compressible"])
    meshes = place_surfaces(descs, fl["alpha"])
    n = len(meshes)
    toc = [sd["toc"] for sd in descs]
    native = _run(_surfaces(descs, meshes), fl, comp, toc)
    surfs = _surfaces(descs, meshes)

    X = MV.Aerodynamics.Surface.COORDINATES
    Fname = MV.Aerodynamics.Surface.LOADS
    # independent statement of the flattened layout: concatenation of C-ordered arrays in list order
    sizes = [m.size for m in meshes]
    offs = np.concatenate([[0], np.cumsum(sizes)]).astype(int)
    ntot = int(offs[-1])
    x = np.concatenate([m.ravel() for m in meshes])

    out.true("mphys/number_of_nodes", get_number_of_nodes(surfs) * 3 == ntot, "get_number_of_nodes*3 != total mesh size")
    src = get_src_indices(surfs)
    nodes = get_node_indices(surfs)
    allidx = np.concatenate([src[s["name"]].ravel() for s in surfs])
    out.true("mphys/src_indices_permutation", allidx.size == ntot and np.array_equal(np.sort(allidx), np.arange(ntot)),
             "src indices are not a permutation of 0..N-1")
    for k, s in enumerate(surfs):
        exp = (np.arange(sizes[k]) + offs[k]).reshape(meshes[k].shape)
        out.true("mphys/src_indices_layout", src[s["name"]].shape == exp.shape and np.array_equal(src[s["name"]], exp),
                 "src indices of surface %d differ from the concatenated C-order layout" % k)
        expn = (np.arange(sizes[k] // 3) + offs[k] // 3).reshape(meshes[k].shape[:2])
        out.true("mphys/node_indices_layout", np.array_equal(nodes[s["name"]], expn), "node indices of surface %d" % k)
        # a node's three coordinates sit at 3*node .. 3*node+2 of the flattened vector
        out.true("mphys/node_vs_src", np.array_equal(src[s["name"]][:, :, 0], 3 * nodes[s["name"]]), "node/src mismatch")

    # the mesh multiplexer: concatenation of the surface meshes in list order, whatever dtype each user array has
    from openaerostruct.mphys.aero_mesh import AeroMesh

    dts = [np.float64, np.float32, np.int64]
    surfs_m = _surfaces(descs, meshes)
    k0 = int(desc["seed"]) % n
    dt = dts[(int(desc["seed"]) // 7) % 3] if n > 1 else np.float64
    if dt is np.int64:
        surfs_m[k0]["mesh"] = np.round(meshes[k0] * 4.0).astype(np.int64)  # a hand-typed integer grid
    else:
        surfs_m[k0]["mesh"] = meshes[k0].astype(dt)
    if dt is not np.float64:
        out.label("user_mesh_dtype=" + np.dtype(dt).name)
    pam = om.Problem(reports=False)
    pam.model.add_subsystem("mesh", AeroMesh(surfaces=surfs_m), promotes=["*"])
    pam.setup()
    pam.run_model()
    out.close("mphys/aero_mesh_coordinates", pam.get_val(MV.Aerodynamics.Surface.Mesh.COORDINATES),
              np.concatenate([np.asarray(sm["mesh"], float).ravel() for sm in surfs_m]), rtol=0.0, atol=0.0)
    pam.cleanup()

    prob = om.Problem(reports=False)
    ivc = om.IndepVarComp()
    ivc.add_output(X, val=x, units="m")
    ivc.add_output(MV.Aerodynamics.FlowConditions.ANGLE_OF_ATTACK, val=fl["alpha"], units="deg")
    ivc.add_output(MV.Aerodynamics.FlowConditions.YAW_ANGLE, val=fl["beta"], units="deg")
    ivc.add_output(MV.Aerodynamics.FlowConditions.MACH_NUMBER, val=fl["Mach"])
    ivc.add_output(MV.Aerodynamics.FlowConditions.REYNOLDS_NUMBER, val=fl["re"], units="1/m")
    ivc.add_output("v", val=fl["v"], units="m/s")
    ivc.add_output("rho", val=fl["rho"], units="kg/m**3")
    ivc.add_output("cg", val=np.array(fl.get("cg", [0.0, 0.0, 0.0]), float), units="m")
    prob.model.add_subsystem("ivc", ivc, promotes=["*"])
    prob.model.add_subsystem("demuxer", DemuxSurfaceMesh(surfaces=surfs), promotes=["*"])
    prob.model.add_subsystem("states", AeroSolverGroup(surfaces=surfs, compressible=comp), promotes=["*"])
    prob.model.add_subsystem("muxer", MuxSurfaceForces(surfaces=surfs), promotes=["*"])
    prob.model.add_subsystem("funcs", AeroFuncsGroup(surfaces=surfs, write_solution=False), promotes=["*"])
    for k, s in enumerate(surfs):
        prob.model.set_input_defaults(s["name"] + ".t_over_c", val=toc[k] * np.ones(meshes[k].shape[1] - 1))
    prob.setup(mode="rev" if desc["seed"] % 2 else "fwd")
    prob.run_model()

    fscale = max(max(float(np.max(np.abs(native.get_val(P + "aero_states.s%d_sec_forces" % k)))) for k in range(n)), 1e-300)
    f = prob.get_val(Fname)
    out.true("mphys/loads_size", f.size == ntot, "f_aero size")
    for k, s in enumerate(surfs):
        nm = s["name"]
        out.close("mphys/demux_mesh", prob.get_val(nm + "_def_mesh"), meshes[k], rtol=0.0, atol=0.0)
        out.close("mphys/sec_forces", prob.get_val(nm + ".sec_forces"), native.get_val(P + "aero_states.%s_sec_forces" % nm),
                  rtol=TOL, scale=fscale)
        mpf = native.get_val(P + "aero_states.%s_mesh_point_forces" % nm)
        if f.size == ntot:
            out.close("mphys/mux_forces_vs_native", f[offs[k]:offs[k + 1]].reshape(meshes[k].shape), mpf, rtol=TOL, scale=fscale)
            out.close("mphys/mux_forces_layout", f[offs[k]:offs[k + 1]].reshape(meshes[k].shape),
                      prob.get_val(nm + "_mesh_point_forces"), rtol=0.0, atol=0.0)
        for key in ("CL", "CD"):
            out.close("mphys/surface_" + key, prob.get_val("%s.%s" % (nm, key)), native.get_val(P + "%s_perf.%s" % (nm, key)),
                      rtol=TOL, scale=max(abs(float(native.get_val(P + "%s_perf.CL" % nm)[0])),
                                          abs(float(native.get_val(P + "%s_perf.CD" % nm)[0])), 1e-300))
    Ta = _totals(native)
    cs = max(abs(float(Ta["CL"][0])), abs(float(Ta["CD"][0])), 1e-300)
    for key in ("CL", "CD"):
        out.close("mphys/total_" + key, prob.get_val(key), Ta[key], rtol=TOL, scale=cs)
    out.close("mphys/total_CM", prob.get_val("CM"), Ta["CM"], rtol=TOL, scale=max(float(np.max(np.abs(Ta["CM"]))), cs))
    LD = max(abs(float(Ta["L"][0])), abs(float(Ta["D"][0])), fscale)
    for key in ("L", "D"):
        out.close("mphys/total_" + key, prob.get_val(key), Ta[key], rtol=TOL, scale=LD)
    out.close("mphys/circulations", prob.get_val("circulations"), native.get_val(P + "circulations"), rtol=TOL)

    # ---- mux o demux = identity (exact inverse permutations), through two small problems (public API only)
    rng = np.random.default_rng(int(desc["seed"]))
    v = rng.uniform(-1.0, 1.0, ntot)
    pd = om.Problem(reports=False)
    pd.model.add_subsystem("d", DemuxSurfaceMesh(surfaces=surfs), promotes=["*"])
    pd.setup()
    pd.set_val(X, v)
    pd.run_model()
    pm = om.Problem(reports=False)
    pm.model.add_subsystem("m", MuxSurfaceForces(surfaces=surfs), promotes=["*"])
    pm.setup()
    for s in surfs:
        pm.set_val(s["name"] + "_mesh_point_forces", pd.get_val(s["name"] + "_def_mesh"))
    pm.run_model()
    out.close("mphys/mux_of_demux_identity", pm.get_val(Fname), v, rtol=0.0, atol=0.0)
    for k, s in enumerate(surfs):
        out.close("mphys/demux_layout", pd.get_val(s["name"] + "_def_mesh"), v[offs[k]:offs[k + 1]].reshape(meshes[k].shape),
                  rtol=0.0, atol=0.0)
    # demux o mux = identity
    ws = [rng.uniform(-1.0, 1.0, m.shape) for m in meshes]
    for s, w in zip(surfs, ws):
        pm.set_val(s["name"] + "_mesh_point_forces", w)
    pm.run_model()
    pd.set_val(X, pm.get_val(Fname))
    pd.run_model()
    for s, w in zip(surfs, ws):
        out.close("mphys/demux_of_mux_identity", pd.get_val(s["name"] + "_def_mesh"), w, rtol=0.0, atol=0.0)

    # ---- matrix-free products: <J v, w> = <v, J^T w>, and J v / J^T w against the independent layout
    demux = pd.model.d
    mux = pm.model.m
    names_d = [s["name"] + "_def_mesh" for s in surfs]
    names_m = [s["name"] + "_mesh_point_forces" for s in surfs]
    # demux fwd
    dout = _Vec({nmk: np.zeros(m.shape) for nmk, m in zip(names_d, meshes)})
    demux.compute_jacvec_product(None, _Vec({X: v.copy()}), dout, "fwd")
    din = _Vec({X: np.zeros(ntot)})
    demux.compute_jacvec_product(None, din, _Vec({nmk: w.copy() for nmk, w in zip(names_d, ws)}), "rev")
    lhs = sum(float(np.sum(dout[nmk] * w)) for nmk, w in zip(names_d, ws))
    rhs = float(np.dot(v, din[X]))
    out.close("mphys/demux_adjoint", lhs, rhs, rtol=1e-13, scale=max(abs(lhs), abs(rhs), 1.0))
    for k, nmk in enumerate(names_d):
        out.close("mphys/demux_fwd_product", dout[nmk], v[offs[k]:offs[k + 1]].reshape(meshes[k].shape), rtol=0.0, atol=0.0)
    out.close("mphys/demux_rev_product", din[X], np.concatenate([w.ravel() for w in ws]), rtol=0.0, atol=0.0)
    # mux fwd / rev
    dout = _Vec({Fname: np.zeros(ntot)})
    mux.compute_jacvec_product(None, _Vec({nmk: w.copy() for nmk, w in zip(names_m, ws)}), dout, "fwd")
    din = _Vec({nmk: np.zeros(m.shape) for nmk, m in zip(names_m, meshes)})
    mux.compute_jacvec_product(None, din, _Vec({Fname: v.copy()}), "rev")
    lhs = float(np.dot(dout[Fname], v))
    rhs = sum(float(np.sum(din[nmk] * w)) for nmk, w in zip(names_m, ws))
    out.close("mphys/mux_adjoint", lhs, rhs, rtol=1e-13, scale=max(abs(lhs), abs(rhs), 1.0))
    out.close("mphys/mux_fwd_product", dout[Fname], np.concatenate([w.ravel() for w in ws]), rtol=0.0, atol=0.0)
    for k, nmk in enumerate(names_m):
        out.close("mphys/mux_rev_product", din[nmk], v[offs[k]:offs[k + 1]].reshape(meshes[k].shape), rtol=0.0, atol=0.0)

    # ---- OpenMDAO's contract for matrix-free products: the product is ACCUMULATED into the vector handed in (a linear
    # solver that applies the whole operator has already put the -I.d_outputs term of the residual there)
    base_f = rng.uniform(-1.0, 1.0, ntot)
    base_s = [rng.uniform(-1.0, 1.0, m.shape) for m in meshes]
    dout = _Vec({nmk: b.copy() for nmk, b in zip(names_d, base_s)})
    demux.compute_jacvec_product(None, _Vec({X: v.copy()}), dout, "fwd")
    for k, nmk in enumerate(names_d):
        out.close("mphys/demux_fwd_accumulates", dout[nmk], base_s[k] + v[offs[k]:offs[k + 1]].reshape(meshes[k].shape),
                  rtol=0.0, atol=1e-15)
    din = _Vec({X: base_f.copy()})
    demux.compute_jacvec_product(None, din, _Vec({nmk: w.copy() for nmk, w in zip(names_d, ws)}), "rev")
    out.close("mphys/demux_rev_accumulates", din[X], base_f + np.concatenate([w.ravel() for w in ws]), rtol=0.0, atol=1e-15)
    dout = _Vec({Fname: base_f.copy()})
    mux.compute_jacvec_product(None, _Vec({nmk: w.copy() for nmk, w in zip(names_m, ws)}), dout, "fwd")
    out.close("mphys/mux_fwd_accumulates", dout[Fname], base_f + np.concatenate([w.ravel() for w in ws]), rtol=0.0, atol=1e-15)
    din = _Vec({nmk: b.copy() for nmk, b in zip(names_m, base_s)})
    mux.compute_jacvec_product(None, din, _Vec({Fname: v.copy()}), "rev")
    for k, nmk in enumerate(names_m):
        out.close("mphys/mux_rev_accumulates", din[nmk], base_s[k] + v[offs[k]:offs[k + 1]].reshape(meshes[k].shape),
                  rtol=0.0, atol=1e-15)

    # ---- the same through OpenMDAO's total-derivative machinery (fwd and rev problems give the permutation matrix),
    # under the linear solvers an enclosing coupling group may use
    if desc.get("totals"):
        lin = ["runonce", "krylov", "direct"][int(desc["seed"]) % 3]
        out.label("totals_lin=" + lin)

        def _lin(model):
            if lin == "krylov":
                model.linear_solver = om.ScipyKrylov(atol=1e-14, rtol=1e-14, maxiter=200, iprint=-1, err_on_non_converge=True)
            elif lin == "direct":
                model.linear_solver = om.DirectSolver(assemble_jac=False)

        for mode in ("fwd", "rev"):
            pt = om.Problem(reports=False)
            iv = om.IndepVarComp()
            iv.add_output(X, val=v, units="m")
            pt.model.add_subsystem("iv", iv, promotes=["*"])
            pt.model.add_subsystem("d", DemuxSurfaceMesh(surfaces=surfs), promotes=["*"])
            _lin(pt.model)
            pt.setup(mode=mode)
            pt.run_model()
            J = pt.compute_totals(of=names_d, wrt=[X])
            for k, nmk in enumerate(names_d):
                E = np.zeros((sizes[k], ntot))
                E[np.arange(sizes[k]), offs[k] + np.arange(sizes[k])] = 1.0
                out.close("mphys/demux_totals_" + mode, J[nmk, X], E, rtol=0.0, atol=1e-14)
            pt = om.Problem(reports=False)
            iv = om.IndepVarComp()
            for nmk, w in zip(names_m, ws):
                iv.add_output(nmk, val=w, units="N")
            pt.model.add_subsystem("iv", iv, promotes=["*"])
            pt.model.add_subsystem("m", MuxSurfaceForces(surfaces=surfs), promotes=["*"])
            _lin(pt.model)
            pt.setup(mode=mode)
            pt.run_model()
            J = pt.compute_totals(of=[Fname], wrt=names_m)
            for k, nmk in enumerate(names_m):
                E = np.zeros((ntot, sizes[k]))
                E[offs[k] + np.arange(sizes[k]), np.arange(sizes[k])] = 1.0
                out.close("mphys/mux_totals_" + mode, J[Fname, nmk], E, rtol=0.0, atol=1e-14)
        out.label("totals_fwd_rev")

    _common_labels(out, desc, descs)
    if desc.get("same_shape") and n > 1:
        out.label("equal_shapes")
    if len(set(m.shape[0] for m in meshes)) > 1:
        out.label("mixed_nx")
    Ftot = np.abs(sum(native.get_val(P + "aero_states.s%d_sec_forces" % k).sum(axis=(0, 1)) for k in range(n))).max()
    out.nontrivial = bool(Ftot > 1e-9 * _q(fl) * float(Ta["S_ref_total"][0]))
    return out


# ---------------------------------------------------------------------------------------------------------------------
# the MPhys builder: the groups it hands out depend on ITS options and the documented defaults only


BUILDER_DEFAULTS = {"user_specified_Sref": False, "compressible": True, "output_dir": "./", "write_solution": True}


@st.composite
def builder_config(draw):
    surfs, _ = draw(surface_list(min_surf=1, max_surf=3, max_panels=24))
    opt = st.fixed_dictionaries({}, optional=dict(user_specified_Sref=st.booleans(), compressible=st.booleans(),
                                                  output_dir=st.sampled_from(["./", "out", "./sol"]), write_solution=st.booleans()))
    return dict(surfaces=surfs, alpha=draw(S.fl(-5.0, 10.0, 3.0)),
                builders=draw(st.lists(st.one_of(st.none(), opt), min_size=2, max_size=4)),
                tags=draw(st.lists(st.integers(0, 3), min_size=0, max_size=3)))


class _Comm:
    rank = 0
    size = 1


def verdict_builder(desc):
    from openaerostruct.mphys import AeroBuilder
    from openaerostruct.mphys.aero_mesh import AeroMesh
    from openaerostruct.mphys.utils import get_node_indices

    out = Outcome()
    descs = desc["surfaces"]
    meshes = place_surfaces(descs, desc["alpha"])
    n = len(meshes)
    nnodes = sum(m.shape[0] * m.shape[1] for m in meshes)
    made = []
    for opts in desc["builders"]:
        surfs = _surfaces(descs, meshes)
        b = AeroBuilder(surfs, options=None if opts is None else dict(opts))
        b.initialize(_Comm())
        made.append((b, dict(BUILDER_DEFAULTS, **(opts or {})), surfs))
    # every builder - also those created BEFORE later ones - reflects its own options and the documented defaults
    for i, (b, exp, surfs) in enumerate(made):
        cg = b.get_coupling_group_subsystem("cruise")
        fg = b.get_post_coupling_subsystem("cruise")
        mg_ = b.get_mesh_coordinate_subsystem("cruise")
        out.true("builder/compressible", bool(cg.options["compressible"]) == exp["compressible"],
                 "builder %d: coupling group compressible=%r, expected %r" % (i, cg.options["compressible"], exp["compressible"]))
        out.true("builder/user_specified_Sref", bool(fg.options["user_specified_Sref"]) == exp["user_specified_Sref"],
                 "builder %d: functions group user_specified_Sref=%r, expected %r" % (i, fg.options["user_specified_Sref"], exp["user_specified_Sref"]))
        out.true("builder/write_solution", bool(fg.options["write_solution"]) == exp["write_solution"], "builder %d write_solution" % i)
        out.true("builder/output_dir", fg.options["output_dir"] == exp["output_dir"], "builder %d output_dir %r" % (i, fg.options["output_dir"]))
        out.true("builder/surfaces_handed_on", cg.options["surfaces"] is surfs and fg.options["surfaces"] is surfs
                 and isinstance(mg_, AeroMesh) and mg_.options["surfaces"] is surfs, "builder %d hands out other surfaces" % i)
        out.true("builder/ndof", b.get_ndof() == 3, "ndof")
        out.true("builder/number_of_nodes", b.get_number_of_nodes() == nnodes, "%r vs %d" % (b.get_number_of_nodes(), nnodes))
        names = ["s%d" % (t % n) for t in desc["tags"]]
        idx = get_node_indices(surfs)
        exp_idx = [int(v) for nm in names for v in idx[nm].flatten()]
        out.true("builder/tagged_indices", list(b.get_tagged_indices(names)) == exp_idx, "tags %s" % names)
        out.true("builder/all_indices", list(b.get_tagged_indices([-1])) == list(range(nnodes)), "tag -1")
    out.true("builder/class_defaults_untouched", dict(AeroBuilder.def_options) == BUILDER_DEFAULTS,
             "class-level defaults are now %r" % (AeroBuilder.def_options,))
    out.label("builders=%d" % len(made), "nsurf=%d" % n)
    if any(o for o in desc["builders"]):
        out.label("non_default_options")
    out.nontrivial = bool(any(o for o in desc["builders"][:-1]))
    return out


SUBS = [
    Sub("permutation", perm_config(), verdict_perm, quick=200, thorough=5000),
    Sub("split_surfaces", split_config(), verdict_split, quick=160, thorough=4000),
    Sub("split_sections", section_config(), verdict_sections, quick=120, thorough=3000),
    Sub("far_surface", far_config(), verdict_far, quick=96, thorough=2000),
    Sub("mphys_chain", mphys_config(), verdict_mphys, quick=160, thorough=4000),
    Sub("mphys_builder", builder_config(), verdict_builder, quick=160, thorough=4000),
]
