"""C08  Ground effect equals the method of images and vanishes far from the ground (DESIGN.md section 4, C08)."""
import numpy as np
from hypothesis import strategies as st

from oasv import strategies as S
from oasv.core import Outcome, Sub
from oasv.layouts import place_surfaces
from oasv.models import aero_direct, aero_surface

RULE = (
    "Hypothesis draws 1-2 symmetric surfaces (left or right halves; swept/tapered/dihedral/twisted/cambered/noisy planforms) "
    "placed outside each other's wakes, alpha in [-5,15] deg, and a ground clearance (height of the lowest node above the "
    "plane) log-uniform in [0.05, 1e6] half-spans; height_agl is computed from it so that all nodes are above the plane by "
    "construction.  Oracles: (1) reference VLM with an explicit image lattice (circulation sign -1) across the plane through "
    "h*n, n=(sin a,0,-cos a); (2) differential inside OAS: free-air AeroPoint holding the real surfaces and their reflected "
    "meshes as extra surfaces; (3) convergence to the free-air result over a ladder of heights: once the plane is >= 4 configuration sizes L "
    "away, the change of every panel force is bounded by the far field of the image system, 0.5 (L/h)^2 x largest free-air panel "
    "force (an image horseshoe of circulation G and span b induces ~ G b / (2 pi (2h)^2), i.e. a relative change ~ (L/h)^2 / 8), "
    "and is < 1e-7 qS at 1e4 half-spans; (4) groundplane with symmetry off raises ValueError at setup while the "
    "same surface with symmetry on sets up.  non-trivial = |sum F| > 1e-9 qS; distinct by descriptor digest."
)
ASSUMPTIONS = [
    "tolerance 1e-9 relative to the largest force / circulation entry (measured floor 5e-16)",
    "zero sideslip (ground effect requires symmetric surfaces)",
    "all surfaces of a configuration have groundplane=True",
]


def config():
    return st.fixed_dictionaries(
        dict(
            surfaces=S.aero_config(max_surf=2, kinds=("left", "right"), nx=(2, 4), nyh=(2, 4), max_panels=24),
            alpha=S.fl(-5.0, 15.0, 5.0, 0.0),
            v=S.fl(10.0, 200.0, 100.0),
            rho=S.fl(0.1, 2.0, 1.0),
            clear=S.logfl(-1.3, 6.0, 0.5),
            units=S.user_units(),
        )
    )


def reflect(m, alpha_deg, h):
    a = np.radians(alpha_deg)
    n = np.array([np.sin(a), 0.0, -np.cos(a)])
    d = (m - n * h) @ n
    return m - 2.0 * d[..., None] * n


def height_for(meshes, alpha_deg, clear):
    a = np.radians(alpha_deg)
    n = np.array([np.sin(a), 0.0, -np.cos(a)])
    b = max(float(np.max(np.abs(m[:, :, 1]))) for m in meshes)
    low = max(float(np.max(m @ n)) for m in meshes)  # largest extent towards the ground
    return low + clear * b, b


def verdict(desc):
    from oasv import ref_vlm

    out = Outcome()
    alpha = desc["alpha"]
    fl = dict(alpha=alpha, beta=0.0, v=desc["v"], rho=desc["rho"])
    meshes = place_surfaces(desc["surfaces"], alpha)
    h, b = height_for(meshes, alpha, desc["clear"])
    ns = len(meshes)
    surf_g = [aero_surface("s%d" % k, m, True, groundplane=True) for k, m in enumerate(meshes)]
    pg = aero_direct(surf_g, fl, height=h, units=desc.get("units"))
    if desc.get("units", {}).get("height_agl", "m") != "m":
        out.label("height-in-" + desc["units"]["height_agl"])
    pg.run_model()
    P = "aero_point_0.aero_states."
    Fg = [pg.get_val(P + "s%d_sec_forces" % k).copy() for k in range(ns)]
    Gg = pg.get_val(P + "circulations").copy()
    S_ref = sum(pg.get_val("aero_point_0.s%d.S_ref" % k)[0] for k in range(ns))
    qS = 0.5 * desc["rho"] * desc["v"] ** 2 * S_ref
    fscale = max(max(float(np.max(np.abs(f))) for f in Fg), 1e-6 * qS)

    # (1) reference with explicit images
    imgs = [[(reflect(m, alpha, h), -1.0)] for m in meshes]
    ref = ref_vlm.solve(meshes, [True] * ns, alpha, 0.0, desc["v"], desc["rho"], images=imgs)
    # (circulations of a non-lifting case are round-off of O(v c) terms: never judged finer than 1e-9 of 1e-6 v c)
    cref_ = max(float(np.max(m[-1, :, 0] - m[0, :, 0])) for m in meshes)
    gscale = max(float(np.max(np.abs(ref["G"]))), 1e-6 * desc["v"] * cref_)
    out.close("ref/circulations", Gg, ref["G"], rtol=1e-9, scale=gscale)
    for k in range(ns):
        out.close("ref/sec_forces", Fg[k], ref["F"][k], rtol=1e-9, scale=fscale)

    # (2) explicit image surfaces inside OAS (free air)
    surf_e = [aero_surface("s%d" % k, m, True) for k, m in enumerate(meshes)]
    surf_e += [aero_surface("i%d" % k, reflect(m, alpha, h), True) for k, m in enumerate(meshes)]
    pe = aero_direct(surf_e, fl)
    pe.run_model()
    Ge = pe.get_val(P + "circulations")
    n = Gg.size
    out.close("images/circulations_real", Ge[:n], Gg, rtol=1e-9, scale=gscale)
    # the image lattice lives at coordinates ~2h: its panel geometry carries a round-off of eps*2h/panel size
    dmin = min(float(np.min(np.diff(m[:, :, 0], axis=0))) for m in meshes)
    dmin = min(dmin, min(float(np.min(np.diff(m[:, :, 1], axis=1))) for m in meshes))
    cmax = max(float(np.max(m[-1, :, 0] - m[0, :, 0])) for m in meshes)
    geo = 2.0 * abs(h) / dmin  # amplification of coordinate round-off into panel slopes
    out.close("images/circulations_image", Ge[n:], -Gg, rtol=1e-9 + 1e-13 * geo, atol=1e-14 * geo * desc["v"] * cmax)
    for k in range(ns):
        out.close("images/sec_forces", pe.get_val(P + "s%d_sec_forces" % k), Fg[k], rtol=1e-9, scale=fscale)
        for c in ("CL", "CDi"):
            a_ = pg.get_val("aero_point_0.s%d_perf.%s" % (k, c))
            b_ = pe.get_val("aero_point_0.s%d_perf.%s" % (k, c))
            out.close("images/" + c, a_, b_, rtol=1e-9, atol=1e-12)

    # (3) decay to free air
    surf_f = [aero_surface("s%d" % k, m, True) for k, m in enumerate(meshes)]
    pf = aero_direct(surf_f, fl)
    pf.run_model()
    Ff = [pf.get_val(P + "s%d_sec_forces" % k).copy() for k in range(ns)]
    errs = []
    ladder = [4.0, 16.0, 64.0, 256.0, 1e4]
    # size of the configuration: diagonal of the bounding box of the full-span geometry
    pts = np.concatenate([m.reshape(-1, 3) for m in meshes])
    ext = pts.max(axis=0) - pts.min(axis=0)
    ext[1] = 2.0 * b
    L = float(np.linalg.norm(ext))
    Fs = max(float(np.max(np.abs(f))) for f in Ff)
    for c in ladder:
        hh, _ = height_for(meshes, alpha, c)
        pg.set_val("height_agl", hh, units="m")
        pg.run_model()
        ea = max(float(np.max(np.abs(pg.get_val(P + "s%d_sec_forces" % k) - Ff[k]))) for k in range(ns))
        errs.append(ea / qS)
        # The statement asks for convergence, not for a monotone approach: contributions of opposite sign (a wing carrying
        # negative and a tail positive lift, ...) can cancel at intermediate heights, so successive errors may grow
        # (observed 0.68, 0.0105, 0.026, 0.011 N over clearances 2, 4, 8, 16).  What convergence does imply is the bound.
        if hh >= 4.0 * L:
            out.le("decay/far_field_bound", ea, 0.5 * (L / hh) ** 2 * Fs + 1e-9 * qS,
                   "clearance %g half-spans, h=%.4g, L=%.4g, largest free-air panel force %.4g" % (c, hh, L, Fs))
    out.le("decay/far", errs[-1], 1e-7, "errors %r" % errs)

    out.label("nsurf=%d" % ns)
    out.label("clear<1" if desc["clear"] < 1 else ("clear<100" if desc["clear"] < 100 else "clear>=100"))
    for s in desc["surfaces"]:
        out.label("kind=" + s["mesh"]["kind"])
    out.label("alpha<0" if alpha < 0 else ("alpha=0" if alpha == 0 else "alpha>0"))
    Ftot = np.abs(sum(f.sum(axis=(0, 1)) for f in Fg)).max()
    out.nontrivial = bool(Ftot > 1e-9 * qS)
    return out


def _library_raised(exc):
    import traceback

    for fr in traceback.extract_tb(exc.__traceback__):
        f = fr.filename.replace("\\", "/")
        if "/openaerostruct/" in f or "/openmdao/" in f:
            return True
    return False


def fault_verdict(desc):
    """groundplane=True with symmetry=False must be rejected at setup (any exception raised by the library during setup is a
    rejection); with symmetry=True it must set up.  `companion`: a second, valid symmetric ground-effect surface is part of
    the same point, so that nothing else about the model (e.g. the height input) is missing."""
    from oasv.meshes import build_mesh

    out = Outcome()
    m = build_mesh(desc["mesh"])
    sym = desc["mesh"]["kind"] in ("left", "right")
    surfs = [aero_surface("w", m, sym, groundplane=True)]
    if desc.get("companion"):
        mc = build_mesh(dict(desc["mesh"], kind="left"))
        mc = mc + np.array([3.0 * float(np.ptp(m[:, :, 0])) + 1.0, 0.0, 0.5])
        comp = aero_surface("c", mc, True, groundplane=True)
        surfs = [comp, surfs[0]] if desc["companion"] == "first" else [surfs[0], comp]
        out.label("companion=" + desc["companion"])
    raised = None
    try:
        p = aero_direct(surfs, dict(alpha=desc["alpha"]), height=desc["h"], setup=False)
        p.setup()
    except Exception as e:  # noqa: BLE001  the point is to observe it
        if not _library_raised(e):
            raise
        raised = e
    if sym:
        out.true("fault/valid_rejected", raised is None, "symmetric ground-effect surface rejected: %r" % raised)
    else:
        out.true("fault/not_rejected", raised is not None, "groundplane without symmetry was accepted at setup")
        if raised is not None:
            out.label("rejected_with=" + type(raised).__name__)
    out.label("symmetry=%s" % sym)
    return out


def fault_config():
    return st.fixed_dictionaries(
        dict(mesh=S.mesh(kinds=("full", "left", "asym", "right"), nx=(2, 3), nyh=(2, 3), noise=False, winglet=False),
             alpha=S.fl(-5.0, 15.0, 5.0), h=S.logfl(0.0, 4.0, 10.0), companion=st.sampled_from([None, "first", "last"]))
    )


SUBS = [
    Sub("images", config(), verdict, quick=560, thorough=8000),
    Sub("reject_without_symmetry", fault_config(), fault_verdict, quick=96, thorough=600),
]
