"""C01  Analytic component derivatives equal the true derivatives at every input (DESIGN.md section 4, C01)."""
import numpy as np
import openmdao.api as om
from hypothesis import strategies as st

from oasv import insitu, numdiff
from oasv import strategies as S
from oasv.core import Outcome, Sub
from oasv.layouts import place_surfaces, symmetry_of
from oasv.meshes import build_mesh
from oasv.models import (aero_geom_problem, aero_surface, aerostruct_problem, struct_alone_problem, struct_surface,
                         wingbox_airfoil)

RULE = (
    "In-situ operating points: Hypothesis draws a configuration (aero point behind Geometry groups with 1-2 surfaces / "
    "structure alone / aerostructural point; 1-3 aero surfaces of unequal mesh sizes; symmetric left or right halves or full span; ground effect; tube or wingbox; "
    "ref_axis_pos in {0,0.25,0.6,1}; wetted/projected area; compressible; rotation rates; viscous/wave; weight relief; fuel; "
    "point masses; geometry design variables incl. the exact defaults such as taper=1), builds the real public group, runs it, "
    "then re-instantiates EVERY OpenAeroStruct component instance alone with the options it had and the input values it saw "
    "(times a drawn relative perturbation eps in {0, 1e-3, 0.03}), linearises it at a first point, moves all inputs, linearises "
    "again and compares the reported derivatives J.d (through compute_totals of the one-component problem, i.e. through the "
    "declared sparsity pattern) with real-valued 5-point numerical differentiation with a Richardson error estimate on an "
    "adaptive step ladder, one dense direction per input plus one joint direction.  Implicit components (FEM, SolveMatrix) are "
    "judged on d residual/d(inputs,state), linear-solve consistency in fwd and rev mode and the totals identity.  Bespoke "
    "sub-checks cover components the public groups do not instantiate or pin to defaults.  non-trivial = a component with >= 1 "
    "non-constant partial or a declared sparse pattern was judged; distinct = descriptor digest; the per-class histogram "
    "counts (component class) instances."
)
ASSUMPTIONS = [
    "rtol 1e-6 of the block scale (floor measured 1e-13..1e-8); 1e-4 where the code itself declares fd partials (WingboxGeometry)",
    "|J.d - D| <= max(rtol*scale, 20*Richardson estimate, 1e-10*|f|); estimate > 1e-3*scale => inconclusive, never a violation",
    "documented non-smooth points are avoided by construction: |M - Mcrit| margin via labels, nodal loads never within the "
    "1e-6 N zeroing threshold (perturbation floor), tube displacement fields with curvature; wingbox surfaces keep |twist| away "
    "from exactly flat chords in the smooth-derivative search (WingboxGeometry.fem_twists = |twist| kink, probe class)",
    "admissible perturbations keep element stiffness matrices symmetric (FEM shares one LU for both modes)",
    "EvalVelMtx at its own force points is judged through the chain def_mesh -> CollocationPoints/VortexMesh -> GetVectors -> "
    "EvalVelMtx (independent perturbations of `vectors` leave the bound-vortex lines, where the guarded kernel is not "
    "differentiable)",
    "half-span structural models are left halves; symmetric meshes for structures have >= 3 spanwise nodes",
]

REF_AXIS = [0.25, 0.0, 0.6, 1.0]


# ------------------------------------------------------------------------------------------------------------------
# configuration strategies


@st.composite
def dvs(draw, ncp):
    d = {}
    if draw(st.booleans()):
        d["twist_cp"] = [draw(S.fl(-5.0, 5.0, 0.0)) for _ in range(ncp)]
    if draw(st.booleans()):
        d["chord_cp"] = [draw(S.fl(0.6, 1.6, 1.0)) for _ in range(ncp)]
    if draw(st.booleans()):
        d["xshear_cp"] = [draw(S.fl(-0.4, 0.4, 0.0)) for _ in range(ncp)]
    if draw(st.booleans()):
        d["zshear_cp"] = [draw(S.fl(-0.4, 0.4, 0.0)) for _ in range(ncp)]
    if draw(st.booleans()):
        d["yshear_cp"] = [draw(S.fl(-0.1, 0.1, 0.0)) for _ in range(ncp)]
    if draw(st.booleans()):
        d["sweep"] = draw(S.fl(-15.0, 30.0, 0.0))
    if draw(st.booleans()):
        d["taper"] = draw(S.fl(0.3, 1.4, 1.0, 1.0))
    if draw(st.booleans()):
        d["dihedral"] = draw(S.fl(-8.0, 12.0, 0.0))
    if draw(st.booleans()):
        d["span_factor"] = draw(S.fl(0.6, 1.8, 1.0))
    return d


def _dv_kwargs(d, mesh):
    kw = {}
    for k in ("twist_cp", "chord_cp", "xshear_cp", "yshear_cp", "zshear_cp"):
        if k in d:
            kw[k] = np.array(d[k], float)
    for k in ("sweep", "taper", "dihedral"):
        if k in d:
            kw[k] = d[k]
    if "span_factor" in d:
        kw["span"] = float(mesh[0, -1, 1] - mesh[0, 0, 1]) * (2.0 if abs(mesh[0, -1, 1]) < 1e-12 or abs(mesh[0, 0, 1]) < 1e-12 else 1.0) * d["span_factor"]
    return kw


@st.composite
def aero_cfg(draw):
    surfaces = draw(S.aero_config(max_surf=3, kinds=("left", "right", "full", "asym"), nx=(2, 3), nyh=(2, 4), max_panels=26,
                                  noise=True, winglet=False))
    # right-half symmetric meshes only with default sweep/dihedral/taper (KF-C07-rightDV) -- derivatives still judged
    allsym = all(symmetry_of(s["mesh"]) for s in surfaces)
    anysym = any(symmetry_of(s["mesh"]) for s in surfaces)
    compressible = draw(st.booleans())
    flow = draw(S.flow(beta=not anysym, rot=not compressible, mach=(0.1, 0.9)))
    opts = []
    for s in surfaces:
        ncp = draw(st.integers(1, 3))
        opts.append(dict(
            ncp=ncp,
            dv=draw(dvs(ncp)),
            with_viscous=draw(st.booleans()),
            with_wave=draw(st.booleans()),
            S_ref_type=draw(st.sampled_from(["wetted", "projected"])),
            ref_axis_pos=draw(st.sampled_from(REF_AXIS)),
            k_lam=draw(st.sampled_from([0.05, 0.0, 0.4, 1.0])),
            toc=[draw(S.fl(0.06, 0.18, 0.12)) for _ in range(draw(st.integers(1, 2)))],
            CL0=draw(st.sampled_from([0.0, 0.1])),
            CD0=draw(st.sampled_from([0.0, 0.01])),
        ))
    return dict(topo="aero", surfaces=surfaces, opts=opts, flow=flow, compressible=compressible,
                ground=(draw(st.booleans()) if (allsym and not compressible) else False), clear=draw(S.logfl(-0.5, 1.5, 1.0)),
                eps=draw(st.sampled_from([0.0, 1e-3, 0.03])), seed=draw(st.integers(0, 10 ** 6)))


@st.composite
def struct_cfg(draw, topo):
    sym = draw(st.booleans())
    md = draw(S.mesh(kinds=("left",) if sym else ("full",), nx=(2, 3), nyh=(3, 4), noise=False, winglet=False,
                     root_offsets=True, max_twist=4.0, max_camber=0.03))
    md["side"]["chord"] = max(md["side"]["chord"], 0.8)
    md["side"]["taper"] = max(md["side"]["taper"], 0.4)
    model = draw(st.sampled_from(["tube", "wingbox"]))
    if model == "wingbox":
        # smooth-derivative search: chords never exactly flat (|twist| kink of WingboxGeometry.fem_twists)
        md["root_twist"] = draw(S.fl(1.0, 3.0, 1.5))
        md["side"]["twist"] = abs(md["side"]["twist"])
    ncp = draw(st.integers(2, 3))
    d = dict(
        topo=topo, mesh=md, model=model, ncp=ncp,
        dv=draw(dvs(ncp)),
        thick=[draw(S.fl(0.7, 1.5, 1.0)) for _ in range(ncp)],
        radius_cp=draw(st.booleans()) if model == "tube" else False,
        weight_relief=draw(st.booleans()),
        fuel=draw(st.booleans()) if model == "wingbox" else False,
        n_masses=draw(st.sampled_from([0, 1, 2])),
        exact=draw(st.booleans()),
        viscous=draw(st.booleans()), wave=draw(st.booleans()),
        compressible=draw(st.booleans()),
        ref_axis_pos=draw(st.sampled_from(REF_AXIS)),
        S_ref_type=draw(st.sampled_from(["wetted", "projected"])),
        airfoil=dict(thick=draw(S.fl(0.04, 0.08, 0.06)), skew=draw(S.fl(-0.5, 0.5, 0.0))),
        flow=dict(alpha=draw(S.fl(1.5, 7.0, 3.0)), v=draw(S.fl(40.0, 110.0, 80.0)), rho=draw(S.fl(0.4, 1.2, 1.0)),
                  Mach=draw(S.fl(0.2, 0.86, 0.3, 0.84)), load_factor=draw(S.fl(0.5, 2.5, 1.0))),
        load_seed=draw(st.integers(0, 10 ** 6)), load_mag=draw(S.logfl(1.0, 4.0, 1e3)),
        eps=draw(st.sampled_from([0.0, 1e-3, 0.03])), seed=draw(st.integers(0, 10 ** 6)),
        tail=draw(st.sampled_from([False, False, True])) if topo == "aerostruct" else False,
    )
    if "twist_cp" in d["dv"] and model == "wingbox":
        d["dv"]["twist_cp"] = [abs(t) + 0.5 for t in d["dv"]["twist_cp"]]
    return d


# ------------------------------------------------------------------------------------------------------------------
# model construction


def build_model(desc, mode=None):
    """mode: None (OpenMDAO default) | 'fwd' | 'rev'"""
    topo = desc["topo"]
    if topo == "aero":
        fl = dict(desc["flow"])
        meshes = place_surfaces(desc["surfaces"], fl["alpha"])
        surfaces = []
        for k, m in enumerate(meshes):
            o = desc["opts"][k]
            sym = symmetry_of(desc["surfaces"][k]["mesh"])
            dv = dict(o["dv"])
            if desc["surfaces"][k]["mesh"]["kind"] == "right":
                for bad in ("sweep", "taper", "dihedral"):
                    dv.pop(bad, None)
            if not sym and (m.shape[1] % 2 == 0):
                pass
            kw = _dv_kwargs(dv, m)
            kw.update(with_viscous=o["with_viscous"], with_wave=o["with_wave"], S_ref_type=o["S_ref_type"],
                      ref_axis_pos=o["ref_axis_pos"], k_lam=o["k_lam"], t_over_c_cp=np.array(o["toc"]), CL0=o["CL0"], CD0=o["CD0"])
            if desc["ground"]:
                kw["groundplane"] = True
            surfaces.append(aero_surface("s%d" % k, m, sym, **kw))
        height = None
        if desc["ground"]:
            a = np.radians(fl["alpha"])
            n = np.array([np.sin(a), 0.0, -np.cos(a)])
            b = max(float(np.max(np.abs(m[:, :, 1]))) for m in meshes)
            height = max(float(np.max(m @ n)) for m in meshes) + (desc["clear"] + 0.5) * b
        p = aero_geom_problem(surfaces, fl, compressible=desc["compressible"], height=height, setup=False)
        p.setup() if mode is None else p.setup(mode=mode)
        return p
    mesh = build_mesh(desc["mesh"])
    sym = desc["mesh"]["kind"] == "left"
    kw = _dv_kwargs(desc["dv"], mesh)
    kw.update(struct_weight_relief=desc["weight_relief"], exact_failure_constraint=desc["exact"], with_viscous=desc["viscous"],
              with_wave=desc["wave"], ref_axis_pos=desc["ref_axis_pos"], S_ref_type=desc["S_ref_type"])
    if desc["fuel"]:
        kw["distributed_fuel_weight"] = True
    nm = desc["n_masses"]
    if nm:
        kw["n_point_masses"] = nm
    s = struct_surface("wing", mesh, sym, desc["model"], ncp=desc["ncp"], **kw)
    if "twist_cp" not in desc["dv"]:
        s["twist_cp"] = np.zeros(desc["ncp"])
    b = float(np.max(np.abs(mesh[:, :, 1])))
    c = float(np.max(mesh[-1, :, 0] - mesh[0, :, 0]))
    s["E"] = s["E"] * max(1.0, (b / (8.0 * c)) ** 3)
    s["G"] = 0.4 * s["E"]
    if desc["model"] == "tube":
        s["thickness_cp"] = 0.015 * np.array(desc["thick"])
        if desc["radius_cp"]:
            s["radius_cp"] = 0.06 * c * np.array(desc["thick"][::-1])
    else:
        s.update(wingbox_airfoil(thick=desc["airfoil"]["thick"], skew=desc["airfoil"]["skew"]))
        s["spar_thickness_cp"] = 0.006 * np.array(desc["thick"])
        s["skin_thickness_cp"] = 0.01 * np.array(desc["thick"][::-1])
    masses = dict(point_masses=[40.0, 25.0][:nm], point_mass_locations=[[0.3, -0.4 * b, 0.05], [0.6, -0.7 * b, -0.05]][:nm],
                  engine_thrusts=[300.0, 150.0][:nm]) if nm else {}
    if topo == "struct":
        ny = mesh.shape[1]
        rng = np.random.default_rng(desc["load_seed"])
        L = rng.uniform(-1.0, 1.0, size=(ny, 6)) * desc["load_mag"]
        L[np.abs(L) < 1e-2] = 1e-2
        extra = {}
        if nm:
            extra = {"point_masses": (np.array(masses["point_masses"]), "kg"),
                     "point_mass_locations": (np.array(masses["point_mass_locations"]), "m"),
                     "engine_thrusts": (np.array(masses["engine_thrusts"]), "N")}
        if desc["fuel"]:
            extra["fuel_mass"] = (np.array([500.0]), "kg")
        p = struct_alone_problem(s, loads=L, load_factor=desc["flow"]["load_factor"], extra=extra, setup=False)
        if desc["fuel"]:
            p.model.connect("struct_setup.fuel_vols", "struct_states.fuel_vols")
        p.setup() if mode is None else p.setup(mode=mode)
        return p
    fl = dict(desc["flow"])
    fl.update(masses)
    surfaces = [s]
    if desc.get("tail"):
        # a second, smaller tube surface behind and above the wing (multi-surface aerostructural coupling)
        tm = mesh * 0.4
        tm = tm + np.array([float(mesh[:, :, 0].max()) + 3.0 - float(tm[:, :, 0].min()), 0.0, float(mesh[:, :, 2].max()) + 1.5])
        if sym:
            tm[:, -1, 1] = 0.0
        t = struct_surface("tail", tm, sym, "tube", ncp=2, struct_weight_relief=desc["weight_relief"],
                           with_viscous=desc["viscous"])
        bt = float(np.max(np.abs(tm[:, :, 1])))
        ct = float(np.max(tm[-1, :, 0] - tm[0, :, 0]))
        t["E"] = t["E"] * max(1.0, (bt / (8.0 * ct)) ** 3)
        t["G"] = 0.4 * t["E"]
        t["thickness_cp"] = 0.008 * np.ones(2)
        surfaces.append(t)
    return aerostruct_problem(surfaces, fl, compressible=desc["compressible"], mode="auto" if mode is None else mode)


# ------------------------------------------------------------------------------------------------------------------
# verdict


def chain_force_pts(out, comp, prob, rng, eps, tag):
    """EvalVelMtx(force_pts) through the admissible chain def_mesh, alpha -> ... -> vel_mtx"""
    from openaerostruct.aerodynamics.collocation_points import CollocationPoints
    from openaerostruct.aerodynamics.eval_mtx import EvalVelMtx
    from openaerostruct.aerodynamics.get_vectors import GetVectors
    from openaerostruct.aerodynamics.vortex_mesh import VortexMesh

    surfaces = comp.options["surfaces"]
    n = comp.options["num_eval_points"]
    ins, outs = insitu.io_values(comp)
    # recover the deformed meshes from the sibling vortex_mesh component
    parent = comp.pathname.rsplit(".", 1)[0]
    meshes = {}
    for s in surfaces:
        meshes[s["name"]] = np.array(prob.get_val(parent + ".vortex_mesh." + s["name"] + "_def_mesh"), float)
    ground = any(s.get("groundplane", False) for s in surfaces)
    alpha = float(np.ravel(ins["alpha"])[0])
    x0 = {"alpha": np.array([alpha])}
    for name, m in meshes.items():
        x0[name + "_def_mesh"] = m
    if ground:
        x0["height_agl"] = np.array(prob.get_val(parent + ".vortex_mesh.height_agl"), float)
    p = om.Problem(reports=False)
    g = p.model
    ivc = om.IndepVarComp()
    for k, v in x0.items():
        ivc.add_output(k, val=v, units="deg" if k == "alpha" else "m")
    g.add_subsystem("ivc", ivc, promotes=["*"])
    g.add_subsystem("collocation_points", CollocationPoints(surfaces=surfaces), promotes=["*"])
    g.add_subsystem("vortex_mesh", VortexMesh(surfaces=surfaces), promotes=["*"])
    g.add_subsystem("get_vectors", GetVectors(surfaces=surfaces, num_eval_points=n, eval_name="force_pts"), promotes=["*"])
    g.add_subsystem("mtx", EvalVelMtx(surfaces=surfaces, num_eval_points=n, eval_name="force_pts"), promotes=["*"])
    p.setup()
    x = {k: v + insitu.perturbation(v, rng, eps) for k, v in x0.items()}

    def setx(xx):
        for k, v in xx.items():
            p.set_val(k, v)

    of = [s["name"] + "_force_pts_vel_mtx" for s in surfaces]
    wrt = sorted(x)
    setx(x)
    p.run_model()
    J = p.compute_totals(of=of, wrt=wrt)
    sizes = {o: int(np.size(p.get_val(o))) for o in of}
    fm = {o: float(np.max(np.abs(p.get_val(o)))) for o in of}
    for k in wrt:
        d = insitu.direction(x[k], rng)

        def f(t, k=k, d=d):
            xx = dict(x)
            xx[k] = x[k] + t * d
            setx(xx)
            p.run_model()
            return np.concatenate([np.ravel(p.get_val(o)) for o in of])

        D, err, info = numdiff.dir_derivative(f)
        if D is None:
            continue
        off = 0
        for o in of:
            jd = np.asarray(J[o, k]).reshape(sizes[o], -1) @ np.ravel(d)
            sl = slice(off, off + sizes[o])
            off += sizes[o]
            numdiff.judge(out, "EvalVelMtx(force_pts chain):vel_mtx/%s" % ("def_mesh" if k.endswith("def_mesh") else k), jd,
                          D[sl], err[sl], 1e-6, msg="[%s chain wrt %s]" % (tag, k), fmag=fm[o])
    p.cleanup()


def verdict(desc):
    out = Outcome()
    from oasv.models import run_coupled

    prob = build_model(desc)
    run_coupled(prob) if desc["topo"] == "aerostruct" else prob.run_model()
    rng = np.random.default_rng(desc["seed"])
    eps = desc["eps"]
    ncomp = 0
    for comp in insitu.leaf_components(prob.model):
        cname = type(comp).__name__
        ins, outs = insitu.io_values(comp)
        if not ins or not outs:
            continue
        if isinstance(comp, om.ImplicitComponent):
            n = insitu.check_implicit(out, comp, ins, outs, rng, max(eps, 1e-3), comp.pathname)
        elif cname == "EvalVelMtx" and comp.options["eval_name"] == "force_pts":
            chain_force_pts(out, comp, prob, rng, max(eps, 1e-3), comp.pathname)
            n = 1
        else:
            e = eps
            if cname == "CreateRHS" or cname == "VonMisesTube":
                e = max(eps, 1e-3)  # keep away from the documented non-smooth points
            if cname == "WaveDrag" and comp.options["surface"].get("with_wave"):
                # documented non-smooth point: wave-drag onset.  Margin |M - Mcrit| >= 0.03 (both sides are generated)
                w, ls, ch = ins["widths"], ins["lengths_spanwise"], ins["chords"]
                area = 0.5 * (ch[:-1] + ch[1:]) * w
                cs = float(np.sum(w / ls * area) / np.sum(area))
                tc = float(np.sum(ins["t_over_c"] * area) / np.sum(area))
                mcrit = 0.95 / cs - tc / cs ** 2 - float(ins["CL"][0]) / (10 * cs ** 3) - (0.1 / 80.0) ** (1.0 / 3.0)
                margin = float(ins["Mach_number"][0]) - mcrit
                if abs(margin) < 0.03:
                    out.label("wave-onset-margin-skipped")
                    continue
                out.label("wave-above-onset" if margin > 0 else "wave-below-onset")
            n = insitu.check_explicit(out, comp, ins, sorted(outs), rng, e, comp.pathname)
        if n:
            ncomp += 1
            out.label("comp=" + cname)
    out.label("topo=" + desc["topo"])
    out.label("eps=%g" % eps)
    if desc["topo"] == "aero":
        out.label("nsurf=%d" % len(desc["surfaces"]))
        for s in desc["surfaces"]:
            out.label("kind=" + s["mesh"]["kind"])
        for k in ("compressible", "ground"):
            if desc[k]:
                out.label(k)
        if "omega" in desc["flow"]:
            out.label("rotational")
        if any(o["S_ref_type"] == "projected" for o in desc["opts"]):
            out.label("projected")
        if any(o["dv"].get("taper") == 1.0 for o in desc["opts"]):
            out.label("taper=1")
    else:
        out.label("model=" + desc["model"])
        out.label("symmetric" if desc["mesh"]["kind"] == "left" else "fullspan")
        for k in ("weight_relief", "fuel", "exact", "radius_cp", "tail"):
            if desc.get(k):
                out.label(k)
        if desc["dv"].get("taper") == 1.0:
            out.label("taper=1")
    out.info["components_judged"] = ncomp
    out.nontrivial = ncomp > 0
    prob.cleanup()
    return out



# ------------------------------------------------------------------------------------------------------------------
# bespoke components (not instantiated by the public groups, or pinned to defaults there)


def _judge_alone(out, comp, ins, rng, eps, tag):
    prob = om.Problem(reports=False)
    prob.model.add_subsystem("c", insitu.clone(comp))
    prob.setup()
    outs = [n.split(".")[-1] for n, _ in prob.model.c.list_outputs(out_stream=None, val=False, prom_name=False)]
    prob.cleanup()
    return insitu.check_explicit(out, comp, ins, sorted(outs), rng, eps, tag)


@st.composite
def bespoke_cfg(draw):
    which = draw(st.sampled_from(["taper", "rotate_norx", "rotate", "monotonic", "energy", "atmos", "reynolds", "unification",
                                  "join", "mux_demux", "failure_exact", "multicd", "spar_within_wing", "fuel_vol_delta", "failure_ks"]))
    d = dict(which=which, seed=draw(st.integers(0, 10 ** 6)), eps=draw(st.sampled_from([0.0, 1e-3, 0.03])))
    if which == "failure_ks":
        # stress levels from far below to far above the allowable (the aggregate and its Jacobian must not overflow)
        d["ne"] = draw(st.integers(1, 40))
        d["level"] = draw(S.logfl(3.0, 12.0, 1e8))
        d["spread"] = draw(S.fl(0.0, 1.0, 0.5))
        d["rho"] = draw(st.sampled_from([100.0, 100.0, 1000.0, 10.0, 5000.0]))
        d["model"] = draw(st.sampled_from(["tube", "wingbox"]))
    if which in ("taper", "rotate", "rotate_norx", "monotonic", "energy", "failure_exact", "spar_within_wing", "fuel_vol_delta"):
        d["mesh"] = draw(S.mesh(kinds=("left", "full", "asym", "right"), nx=(2, 4), nyh=(2, 4), winglet=True))
        d["ref_axis_pos"] = draw(st.sampled_from(REF_AXIS))
        d["taper"] = draw(S.fl(0.2, 1.5, 1.0, 1.0))
        d["twist"] = [draw(S.fl(-10.0, 10.0, 0.0)) for _ in range(9)]
        d["var"] = draw(st.sampled_from(["chord", "twist", "thickness"]))
    if which == "atmos":
        d["altitude"] = draw(S.fl(-1000.0, 150000.0, 35000.0, 0.0, 36089.0))
        d["Mach"] = draw(S.fl(0.05, 0.95, 0.5))
    if which == "reynolds":
        d["rho"] = draw(S.logfl(-5.0, -2.0))
        d["mu"] = draw(S.logfl(-8.0, -6.0))
        d["v"] = draw(S.fl(10.0, 1000.0, 300.0))
    if which in ("unification", "join"):
        nsec = draw(st.integers(2, 4))
        d["nsec"] = nsec
        d["nys"] = [draw(st.integers(2, 5)) for _ in range(nsec)]
        d["nx"] = draw(st.integers(2, 4))
        d["shift"] = draw(st.booleans())
        d["symmetry"] = draw(st.booleans())
        d["dim_constr"] = [[draw(st.sampled_from([1.0, 0.0])) for _ in range(3)] for _ in range(nsec - 1)]
    if which == "mux_demux":
        d["shapes"] = [[draw(st.integers(2, 4)), draw(st.integers(2, 5))] for _ in range(draw(st.integers(1, 3)))]
    return d


def _sections(desc, rng):
    """abutting section meshes, ordered left to right (tip to root for symmetric surfaces), random but well-formed"""
    secs = []
    y0 = -10.0
    nx = desc["nx"]
    for k, ny in enumerate(desc["nys"]):
        if not desc["symmetry"] and ny % 2 == 0:
            ny += 1
        ys = y0 + np.cumsum(np.concatenate([[0.0], rng.uniform(0.5, 1.5, size=ny - 1)]))
        y0 = ys[-1]
        m = np.zeros((nx, ny, 3))
        xle = rng.uniform(-0.5, 0.5) + 0.1 * ys
        ch = rng.uniform(0.8, 1.5) - 0.02 * ys
        for i in range(nx):
            m[i, :, 0] = xle + ch * i / (nx - 1)
            m[i, :, 1] = ys
            m[i, :, 2] = 0.05 * ys + 0.02 * rng.uniform(-1, 1, size=ny)
        secs.append({"name": "sec%d" % k, "mesh": m, "symmetry": desc["symmetry"], "t_over_c_cp": np.array([0.12])})
    return secs


def bespoke_verdict(desc):
    from openaerostruct.geometry.geometry_mesh_transformations import Rotate, Taper

    out = Outcome()
    rng = np.random.default_rng(desc["seed"])
    eps = desc["eps"]
    w = desc["which"]
    out.label("bespoke=" + w)
    n = 0
    if w in ("taper", "rotate", "rotate_norx", "monotonic", "energy", "failure_exact", "spar_within_wing", "fuel_vol_delta"):
        mesh = build_mesh(desc["mesh"])
        kind = desc["mesh"]["kind"]
        sym = kind in ("left", "right")
        out.label("kind=" + kind)
    if w == "taper":
        if kind == "right":
            mesh = mesh[:, ::-1, :] * np.array([1.0, -1.0, 1.0])  # Taper is documented for left halves (KF-C07-rightDV)
        comp = Taper(val=desc["taper"], mesh=mesh, symmetry=sym, ref_axis_pos=desc["ref_axis_pos"])
        if desc["taper"] == 1.0:
            out.label("taper=1")
        n = _judge_alone(out, comp, {"taper": np.array([desc["taper"]])}, rng, eps if desc["taper"] != 1.0 else 0.0, "Taper")
    elif w in ("rotate", "rotate_norx"):
        ny = mesh.shape[1]
        if kind == "right":
            mesh = mesh[:, ::-1, :] * np.array([1.0, -1.0, 1.0])
        tw = np.array(desc["twist"][:ny] + [0.0] * max(0, ny - 9))[:ny]
        comp = Rotate(val=tw, mesh_shape=mesh.shape, symmetry=sym, rotate_x=(w == "rotate"), ref_axis_pos=desc["ref_axis_pos"])
        out2 = Outcome() if w == "rotate_norx" else out
        n = _judge_alone(out2, comp, {"twist": tw, "in_mesh": mesh}, rng, eps, "Rotate(rotate_x=%s)" % (w == "rotate"))
        if w == "rotate_norx":
            # recorded finding: d mesh / d in_mesh of Rotate(rotate_x=False) lacks the leading/trailing-edge coupling terms
            for f in out2.fails:
                if f["key"] in ("Rotate:mesh/in_mesh", "Rotate:mesh/joint"):
                    out.fail("KF-C01-rotate-norx:d_mesh_d_in_mesh", f["msg"])
                else:
                    out.fails.append(f)
            out.residuals.update({k: v for k, v in out2.residuals.items() if "in_mesh" not in k and "joint" not in k})
    elif w == "monotonic":
        from openaerostruct.geometry.monotonic_constraint import MonotonicConstraint

        ny = mesh.shape[1]
        surf = {"name": "w", "mesh": mesh, "symmetry": sym}
        comp = MonotonicConstraint(var_name=desc["var"], surface=surf)
        n = _judge_alone(out, comp, {desc["var"]: rng.uniform(0.5, 2.0, size=ny)}, rng, eps, "MonotonicConstraint")
    elif w == "energy":
        from openaerostruct.structures.energy import Energy

        ny = mesh.shape[1]
        comp = Energy(surface={"name": "w", "mesh": mesh, "symmetry": sym})
        n = _judge_alone(out, comp, {"disp": rng.uniform(-0.1, 0.1, size=(ny, 6)), "loads": rng.uniform(-1e3, 1e3, size=(ny, 6))},
                         rng, eps, "Energy")
    elif w == "failure_exact":
        from openaerostruct.structures.failure_exact import FailureExact

        ny = mesh.shape[1]
        for model, ncol in (("tube", 2), ("wingbox", 4)):
            comp = FailureExact(surface={"name": "w", "mesh": mesh, "symmetry": sym, "yield": 2e8, "fem_model_type": model})
            n += _judge_alone(out, comp, {"vonmises": rng.uniform(1e5, 5e8, size=(ny - 1, ncol))}, rng, eps, "FailureExact")
    elif w == "multicd":
        from openaerostruct.integration.multipoint_comps import MultiCD

        npt = 1 + desc["seed"] % 4
        n = _judge_alone(out, MultiCD(n_points=npt), {"%d_CD" % i: rng.uniform(0.005, 0.05, size=1) for i in range(npt)}, rng, eps,
                         "MultiCD")
    elif w == "spar_within_wing":
        from openaerostruct.structures.spar_within_wing import SparWithinWing

        ny = mesh.shape[1]
        comp = SparWithinWing(surface={"name": "w", "mesh": mesh, "symmetry": sym, "fem_origin": 0.35})
        n = _judge_alone(out, comp, {"mesh": mesh, "radius": rng.uniform(0.02, 0.1, size=ny - 1),
                                     "t_over_c": rng.uniform(0.08, 0.16, size=ny - 1)}, rng, eps, "SparWithinWing")
    elif w == "fuel_vol_delta":
        from openaerostruct.structures.wingbox_fuel_vol_delta import WingboxFuelVolDelta

        ny = mesh.shape[1]
        comp = WingboxFuelVolDelta(surface={"name": "w", "mesh": mesh, "symmetry": sym, "fuel_density": 803.0, "Wf_reserve": 150.0})
        out2 = Outcome()
        n = _judge_alone(out2, comp, {"fuelburn": rng.uniform(1e2, 1e4, size=1), "fuel_vols": rng.uniform(0.01, 0.5, size=ny - 1)},
                         rng, eps, "WingboxFuelVolDelta")
        inplace = [f for f in out2.fails if f["key"] == "WingboxFuelVolDelta:input_modified_in_place/fuelburn"]
        if sym and inplace:
            # recorded finding: the symmetric branch halves the fuelburn INPUT in place; the wrong cs partials follow from it
            out.fail("KF-C01-fuelvoldelta-inplace:symmetric_branch_halves_input_in_place", inplace[0]["msg"])
        else:
            out.fails.extend(out2.fails)
        out.residuals.update(out2.residuals)
        out.label("fuelvoldelta-symmetric" if sym else "fuelvoldelta-fullspan")
    elif w == "failure_ks":
        from openaerostruct.structures.failure_ks import FailureKS

        ne = desc["ne"]
        ncol = 2 if desc["model"] == "tube" else 4
        surf = {"name": "w", "mesh": np.zeros((2, ne + 1, 3)), "symmetry": True, "yield": 2e8, "fem_model_type": desc["model"]}
        vm = desc["level"] * (1.0 - desc["spread"] * rng.uniform(0.0, 1.0, size=(ne, ncol)))
        out.label("ks-level=%s" % ("<0.1" if desc["level"] < 2e7 else ("~1" if desc["level"] < 2e9 else ">10")) + "*yield")
        out.label("ks-rho=%g" % desc["rho"])
        # exact reference: failure = KS_rho(vm/yield - 1), so d failure/d vm_i = softmax_i(rho (vm/yield - 1)) / yield
        pk = om.Problem(reports=False)
        ivk = om.IndepVarComp()
        ivk.add_output("vonmises", val=vm, units="N/m**2")
        pk.model.add_subsystem("iv", ivk, promotes=["*"])
        pk.model.add_subsystem("c", FailureKS(surface=surf, rho=desc["rho"]), promotes=["*"])
        pk.setup()
        pk.run_model()
        Jk = np.array(pk.compute_totals(of=["failure"], wrt=["vonmises"])["failure", "vonmises"], float).ravel()
        g = desc["rho"] * (vm / surf["yield"] - 1.0)
        wgt = np.exp(g - g.max())
        wgt = (wgt / wgt.sum() / surf["yield"]).ravel()
        out.close("FailureKS:failure/vonmises(closed form)", Jk, wgt, rtol=1e-9, scale=float(np.max(wgt)))
        ks_ref = (g.max() + np.log(np.sum(np.exp(g - g.max())))) / desc["rho"]
        out.close("FailureKS:failure(closed form)", pk.get_val("failure"), [ks_ref], rtol=1e-12, atol=1e-12)
        pk.cleanup()
        # numerical differentiation is added only where its smallest step (1e-6 of the stress level) resolves the curvature
        # length yield/rho of the aggregate: with 38 equal stresses of 5000 x yield the weights turn from uniform to
        # max-dominated within 2e-6 of the level, and a difference quotient measures the wrong slope with a small error estimate
        if desc["rho"] * desc["level"] * 1e-6 / surf["yield"] <= 0.01:
            n = _judge_alone(out, FailureKS(surface=surf, rho=desc["rho"]), {"vonmises": vm}, rng, min(eps, 1e-3), "FailureKS")
        else:
            out.label("ks-closed-form-only")
            n = 1
    elif w == "atmos":
        from openaerostruct.common.atmos_comp import AtmosComp

        out.label("alt<36k" if desc["altitude"] < 36089 else "alt>=36k")
        n = _judge_alone(out, AtmosComp(), {"altitude": np.array([desc["altitude"]]), "Mach_number": np.array([desc["Mach"]])},
                         rng, min(eps, 1e-3), "AtmosComp")
    elif w == "reynolds":
        from openaerostruct.common.reynolds_comp import ReynoldsComp

        n = _judge_alone(out, ReynoldsComp(), {"rho": np.array([desc["rho"]]), "mu": np.array([desc["mu"]]),
                                                "v": np.array([desc["v"]])}, rng, eps, "ReynoldsComp")
    elif w == "unification":
        from openaerostruct.geometry.geometry_unification import GeomMultiUnification

        secs = _sections(desc, rng)
        comp = GeomMultiUnification(sections=secs, surface_name="surf", shift_uni_mesh=desc["shift"])
        ins = {"%s_def_mesh" % s["name"]: s["mesh"] for s in secs}
        ins.update({"%s_t_over_c" % s["name"]: rng.uniform(0.08, 0.16, size=(s["mesh"].shape[1] - 1,)) for s in secs})
        out.label("shift=%s" % desc["shift"])
        out.label("equal_ny" if len({s["mesh"].shape[1] for s in secs}) == 1 else "different_ny")
        prob = om.Problem(reports=False)
        prob.model.add_subsystem("c", insitu.clone(comp))
        prob.setup()
        names = [k.split(".")[-1] for k, _ in prob.model.c.list_inputs(out_stream=None, val=False, prom_name=False)]
        prob.cleanup()
        ins = {k: v for k, v in ins.items() if k in names}
        n = _judge_alone(out, comp, ins, rng, eps, "GeomMultiUnification")
    elif w == "join":
        from openaerostruct.geometry.geometry_multi_join import GeomMultiJoin

        secs = _sections(desc, rng)
        masks = [np.array(c) for c in desc["dim_constr"]]
        if not any(m.any() for m in masks):
            masks[0] = np.array([1.0, 0.0, 0.0])  # at least one constrained dimension (empty outputs are not a use case)
        comp = GeomMultiJoin(sections=secs, dim_constr=masks)
        ins = {"%s_join_mesh" % s["name"]: s["mesh"] + 0.05 * rng.uniform(-1, 1, size=s["mesh"].shape) for s in secs}
        n = _judge_alone(out, comp, ins, rng, eps, "GeomMultiJoin")
    elif w == "mux_demux":
        from openaerostruct.mphys.demux_surface_mesh import DemuxSurfaceMesh
        from openaerostruct.mphys.mux_surface_forces import MuxSurfaceForces

        surfs = [{"name": "s%d" % k, "mesh": np.zeros((nx, ny, 3)), "symmetry": False} for k, (nx, ny) in enumerate(desc["shapes"])]
        nn = sum(nx * ny for nx, ny in desc["shapes"])
        n += _judge_alone(out, DemuxSurfaceMesh(surfaces=surfs), {"x_aero": rng.uniform(-5, 5, size=3 * nn)}, rng, eps, "Demux")
        n += _judge_alone(out, MuxSurfaceForces(surfaces=surfs),
                          {"s%d_mesh_point_forces" % k: rng.uniform(-100, 100, size=(nx, ny, 3))
                           for k, (nx, ny) in enumerate(desc["shapes"])}, rng, eps, "Mux")
    out.nontrivial = n > 0
    return out


@st.composite
def wbkink_cfg(draw):
    md = draw(S.mesh(kinds=("left", "full"), nx=(2, 3), nyh=(2, 4), noise=False, winglet=False, max_twist=0.0, max_camber=0.0))
    md["root_twist"] = 0.0
    md["side"]["twist"] = 0.0
    return dict(mesh=md, seed=draw(st.integers(0, 10 ** 6)), airfoil=dict(thick=draw(S.fl(0.04, 0.08, 0.06))))


def wbkink_verdict(desc):
    """probe: WingboxGeometry at exactly flat chords (the usual starting point twist = 0)"""
    from openaerostruct.structures.wingbox_geometry import WingboxGeometry

    out = Outcome()
    rng = np.random.default_rng(desc["seed"])
    mesh = build_mesh(desc["mesh"])
    surf = {"name": "w", "mesh": mesh, "symmetry": desc["mesh"]["kind"] == "left"}
    surf.update(wingbox_airfoil(thick=desc["airfoil"]["thick"]))
    out2 = Outcome()
    _judge_alone(out2, WingboxGeometry(surface=surf), {"mesh": mesh}, rng, 0.0, "WingboxGeometry(flat chords)")
    for f in out2.fails:
        if f["key"].startswith("WingboxGeometry:fem_twists"):
            out.fail("KF-C01-wbkink:fem_twists_at_flat_chords", f["msg"])
        else:
            out.fails.append(f)
    out.label("wingbox-flat-chords")
    return out


SUBS = [
    Sub("insitu_aero", aero_cfg(), verdict, quick=240, thorough=2400),
    Sub("insitu_struct", struct_cfg("struct"), verdict, quick=128, thorough=1280),
    Sub("insitu_aerostruct", struct_cfg("aerostruct"), verdict, quick=96, thorough=960),
    Sub("bespoke", bespoke_cfg(), bespoke_verdict, quick=480, thorough=4800),
    Sub("wingbox_flat_chord_probe", wbkink_cfg(), wbkink_verdict, quick=16, thorough=100, max_shards=4),
]
