#!/usr/bin/env python3
"""tools/archive_seed.py <seed_dir> : copy a verified seeded change into /verif/seeded/<name>/ with an enriched meta.json
(needs /tmp/seedtests/<name>.check.json from tools/seedrun.py and /tmp/seedtests/<P>_<x>.result from the suite run)"""
import json
import os
import shutil
import sys

VERIF = os.path.dirname(os.path.dirname(os.path.abspath(__file__)))
seed = os.path.abspath(sys.argv[1])
name = os.path.basename(seed).replace("seed2_", "R2_").replace("seed3_", "R3_").replace("seed_", "")
meta = json.load(open(os.path.join(seed, "meta.json")))
chk = json.load(open("/tmp/seedtests/%s.check.json" % os.path.basename(seed)))
res_file = "/tmp/seedtests/%s.result" % name
suite = open(res_file).read().strip().splitlines() if os.path.exists(res_file) else ["(not re-run)"]
dst = os.path.join(VERIF, "seeded", name)
os.makedirs(dst, exist_ok=True)
shutil.copy(os.path.join(seed, "patch.diff"), dst)
shutil.copy(os.path.join(seed, "demo.py"), dst)
out = {
    "property": meta["property"],
    "what": meta.get("what"),
    "needs": meta.get("needs"),
    "files": meta.get("files"),
    "origin": "fresh sub-agent given only the property text and a scratch worktree (no access to /verif)",
    "verified_by_me": {
        "base_commit": chk["head"],
        "demo": "cd /tmp && /venv/bin/python demo.py <tree>: exit %d on the unchanged tree, exit %d with the patch"
                % (chk["demo_unchanged_exit"], chk["demo_patched_exit"]),
        "existing_suite_with_patch": suite,
        "suite_cmd": "cd <worktree with patch> && /venv/bin/python -m pytest -q -p no:cacheprovider --timeout=900 tests "
                     "(baseline on the unchanged tree: 174 passed, 3 failed = the always-failing tests of BASELINE.json)",
        "checks_quick_tier": chk["checks"],
    },
    "sub_agent_tests_run": meta.get("tests_run"),
}
json.dump(out, open(os.path.join(dst, "meta.json"), "w"), indent=1)
print("archived", dst, {k: v["exit"] for k, v in chk["checks"].items()})
